// Circuit generator (DESIGN §2.5) and the independent oracles shared by several properties (§2.6).
// Nothing in the oracles calls library helpers such as placedWidth(), pinXOffset(), computeRows():
// they are written from the property texts and the DEF orientation semantics.
#pragma once
#include <climits>
#include <map>
#include <set>
#include <sstream>
#include <string>
#include <vector>

#include "coloquinte.hpp"
#include "vf.hpp"

namespace vfc {
using namespace coloquinte;
using vf::Rng;

static const CellOrientation ALL8[8] = {CellOrientation::N,  CellOrientation::S,  CellOrientation::W,  CellOrientation::E,
                                        CellOrientation::FN, CellOrientation::FS, CellOrientation::FW, CellOrientation::FE};
static const CellOrientation UNTURNED4[4] = {CellOrientation::N, CellOrientation::S, CellOrientation::FN, CellOrientation::FS};

inline const char *oname(CellOrientation o) {
  switch ((int)o) {
    case 0: return "N";
    case 1: return "S";
    case 2: return "W";
    case 3: return "E";
    case 4: return "FN";
    case 5: return "FS";
    case 6: return "FW";
    case 7: return "FE";
    case 8: return "INVALID";
    case 9: return "UNKNOWN";
  }
  return "?";
}
inline const char *pname(CellRowPolarity p) {
  switch (p) {
    case CellRowPolarity::ANY: return "ANY";
    case CellRowPolarity::SAME: return "SAME";
    case CellRowPolarity::OPPOSITE: return "OPPOSITE";
    case CellRowPolarity::NW: return "NW";
    case CellRowPolarity::SE: return "SE";
  }
  return "?";
}
inline bool turnedO(CellOrientation o) {
  return o == CellOrientation::E || o == CellOrientation::W || o == CellOrientation::FE || o == CellOrientation::FW;
}
// placed size of a cell, from stored size and orientation (own implementation)
inline int pW(const Circuit &c, int i) { return turnedO(c.cellOrientation_[i]) ? c.cellHeight_[i] : c.cellWidth_[i]; }
inline int pH(const Circuit &c, int i) { return turnedO(c.cellOrientation_[i]) ? c.cellWidth_[i] : c.cellHeight_[i]; }

struct GenOpts {
  int maxRows = 6;
  int maxCells = 12;
  int minCells = 1;
  int maxFixed = 3;
  int maxNets = 10;
  bool multiRow = true;
  double multiRowProb = 0.2;
  bool polarity = true;
  double polarityProb = 0.5;
  bool turned = true;     // allow E/W/FE/FW for cells without polarity
  bool splitRows = true;  // several segments per y
  double splitProb = 0.25;
  bool gaps = true;       // vertical gaps between rows
  double utilLo = 0.2, utilHi = 0.9;
  int scale = 1;          // coordinate multiplier
  bool farInit = true;
  bool minRowWidth4H = false;  // C06 domain: rows at least 4 row heights wide
  bool weights = true;
  int maxDegree = 6;
  double bigNetProb = 0.02;  // high-fanout nets (20..70 pins, cells repeated)
  double obstructionProb = 0.75;
  bool fixedTallOnly = false;
  int rowOrientPattern = -1;  // -1 random
  bool positiveArea = true;   // movable cells have positive width/height
  int minMultiRows = 2;     // smallest number of rows of a multi-row cell
  bool narrowRows = false;  // rows as narrow as the domain of global placement allows (a little more than 4 row heights)
  bool allTurned = false;  // every cell without polarity (fixed ones included) gets a turned orientation
  bool staggered = false;  // 2-3 regions side by side whose row grids have different y origins (row y ranges overlap partially)
  bool comb = false;  // a few wide row levels cut into 66..110 segments each by narrow fixed straps
  bool bigFixed = false;  // fixed macros up to half of the row area in each direction: whole density bins are blocked
  bool feasiblePolarity = false;  // only SAME/OPPOSITE polarities, multi-row cells only when enough rows exist
  int fixedOrder = 0;          // 0 shuffled, 1 fixed cells first, 2 fixed cells last
  int startMode = 0;           // 0 scattered, 1 all cells at one point, 2 one x column, 3 coarse grid (many ties)
  int widthMax = 0;            // >0: movable cell widths 1..widthMax (in units of scale)
  bool centredPins = false;   // pin offsets at (or symmetric around) the cell centre
  int rowHeightOverride = 0;  // >0: row height independent of the x scale (very wide rows)
};

inline std::string circuitJson(const Circuit &c) {
  vf::J o = vf::J::obj();
  vf::J cells = vf::J::arr();
  for (int i = 0; i < c.nbCells(); ++i) {
    vf::J x = vf::J::arr();
    x.v(c.cellWidth_[i]).v(c.cellHeight_[i]).v((int)c.cellIsFixed_[i]).v((int)c.cellIsObstruction_[i]);
    x.v(std::string(pname(c.cellRowPolarity_[i]))).v(c.cellX_[i]).v(c.cellY_[i]).v(std::string(oname(c.cellOrientation_[i])));
    cells.raw(x.str());
  }
  o.kv("cell_fields", "w,h,fixed,obstruction,polarity,x,y,orientation");
  o.kraw("cells", cells.str());
  vf::J rows = vf::J::arr();
  for (auto &r : c.rows_) {
    vf::J x = vf::J::arr();
    x.v(r.minX).v(r.maxX).v(r.minY).v(r.maxY).v(std::string(oname(r.orientation)));
    rows.raw(x.str());
  }
  o.kraw("rows", rows.str());
  vf::J nets = vf::J::arr();
  for (int n = 0; n < c.nbNets(); ++n) {
    vf::J x = vf::J::obj();
    x.kv("w", (double)c.netWeights_[n]);
    vf::J pins = vf::J::arr();
    for (int p = c.netLimits_[n]; p < c.netLimits_[n + 1]; ++p) {
      vf::J pp = vf::J::arr();
      pp.v(c.pinCells_[p]).v(c.pinXOffsets_[p]).v(c.pinYOffsets_[p]);
      pins.raw(pp.str());
    }
    x.kraw("pins", pins.str());
    nets.raw(x.str());
  }
  o.kraw("nets", nets.str());
  return o.str();
}

// ------------------------------------------------------------------------------------------------
// "Comb": 1..4 wide row levels cut by 66..110 one-unit-wide fixed obstruction straps (power straps), so that the list of
// free row segments has far more entries per level than there are levels; row-high movable cells that fit between straps.
inline Circuit genCombCircuit(Rng &rng, const GenOpts &o) {
  int H = (int)rng.pick(std::vector<int>{1, 2, 5, 10}) * (int)std::min<long long>(o.scale, 100);
  int unit = (int)std::min<long long>(o.scale, 100);
  int levels = (int)rng.range(1, 4), straps = (int)rng.range(66, 110), pitch = (int)rng.range(3, 8);
  int W = (straps + 1) * pitch * unit;
  int x0 = (int)rng.range(-20, 20) * unit, y0 = (int)rng.range(-20, 20) * H;
  std::vector<Row> rows;
  static const CellOrientation rowO[4] = {CellOrientation::N, CellOrientation::FS, CellOrientation::S, CellOrientation::FN};
  int pattern = (int)rng.range(0, 2);
  for (int l = 0; l < levels; ++l)
    rows.emplace_back(x0, x0 + W, y0 + l * H, y0 + (l + 1) * H, pattern == 0 ? (l % 2 ? CellOrientation::FS : CellOrientation::N) : pattern == 1 ? CellOrientation::N : rowO[rng.range(0, 3)]);
  if (rng.chance(0.3)) for (int i = (int)rows.size() - 1; i > 0; --i) std::swap(rows[i], rows[rng.range(0, i)]);
  int nMov = (int)rng.range(std::max(4, o.minCells), std::max(8, std::min(o.maxCells, 40)));
  int total = straps + nMov;
  std::vector<int> w(total), h(total), cx(total), cy(total);
  std::vector<bool> fx(total), ob(total, true);
  std::vector<CellRowPolarity> pol(total, CellRowPolarity::ANY);
  std::vector<CellOrientation> ori(total, CellOrientation::N);
  std::vector<int> isStrap(total, 0);
  for (int i = 0; i < straps; ++i) isStrap[i] = 1;
  if (o.fixedOrder == 0) for (int i = total - 1; i > 0; --i) std::swap(isStrap[i], isStrap[rng.range(0, i)]);
  else if (o.fixedOrder == 2) std::reverse(isStrap.begin(), isStrap.end());
  int k = 0;
  for (int i = 0; i < total; ++i) {
    if (isStrap[i]) {
      int lo = 0, hi = levels;
      if (levels > 1 && rng.chance(0.3)) { lo = (int)rng.range(0, levels - 1); hi = (int)rng.range(lo + 1, levels); }
      w[i] = unit; h[i] = (hi - lo) * H; fx[i] = true;
      cx[i] = x0 + (k + 1) * pitch * unit - unit; cy[i] = y0 + lo * H;
      ++k;
    } else {
      w[i] = (int)rng.range(1, pitch - 1) * unit; h[i] = H; fx[i] = false;
      cx[i] = x0 + (int)rng.range(-3, (straps + 1) * pitch + 3) * unit; cy[i] = y0 + (int)rng.range(-2, levels + 1) * H;
      if (o.polarity && rng.chance(o.polarityProb)) pol[i] = rng.chance(0.5) ? CellRowPolarity::SAME : CellRowPolarity::OPPOSITE;
      if (pol[i] == CellRowPolarity::ANY && rng.chance(0.3)) ori[i] = UNTURNED4[rng.range(0, 3)];
    }
  }
  Circuit c(total);
  c.setCellWidth(w); c.setCellHeight(h); c.setCellIsFixed(fx); c.setCellIsObstruction(ob);
  c.setCellX(cx); c.setCellY(cy); c.setCellRowPolarity(pol); c.setCellOrientation(ori); c.setRows(rows);
  int nNets = (int)rng.range(0, o.maxNets);
  for (int n = 0; n < nNets; ++n) {
    int deg = (int)rng.range(2, 4);
    std::vector<int> cells, xo, yo;
    for (int j = 0; j < deg; ++j) { int cc = (int)rng.range(0, total - 1); cells.push_back(cc); xo.push_back((int)rng.range(0, w[cc])); yo.push_back((int)rng.range(0, h[cc])); }
    c.addNet(cells, xo, yo, 1.0f);
  }
  c.hasCellSizeUpdate_ = false;
  c.hasNetUpdate_ = false;
  c.check();
  return c;
}

// ------------------------------------------------------------------------------------------------
// "Staggered": two or three placement regions side by side, all with the same row height but with row grids that start at
// different y (offsets that are not multiples of the row height): rows are pairwise disjoint and of uniform height, yet the
// y ranges of rows of different regions overlap partially. Rows are listed region by region or shuffled.
inline Circuit genStaggeredCircuit(Rng &rng, const GenOpts &o) {
  int unit = (int)std::min<long long>(o.scale, 100);
  int H = (int)rng.pick(std::vector<int>{2, 3, 4, 5, 8, 10, 12}) * unit;
  int regions = (int)rng.range(2, 3);
  int x0 = (int)rng.range(-20, 20) * unit, y0 = (int)rng.range(-20, 20) * unit;
  std::vector<Row> rows;
  static const CellOrientation rowO[4] = {CellOrientation::N, CellOrientation::FS, CellOrientation::S, CellOrientation::FN};
  int x = x0, maxLevels = 0;
  for (int k = 0; k < regions; ++k) {
    int Wk = (int)rng.range(6, 40) * unit, levels = (int)rng.range(1, 6);
    int off = k == 0 ? 0 : (int)rng.range(1, H / unit * 2) * unit;  // usually not a multiple of H
    int pattern = (int)rng.range(0, 2);
    for (int l = 0; l < levels; ++l)
      rows.emplace_back(x, x + Wk, y0 + off + l * H, y0 + off + (l + 1) * H, pattern == 0 ? (l % 2 ? CellOrientation::FS : CellOrientation::N) : pattern == 1 ? CellOrientation::N : rowO[rng.range(0, 3)]);
    x += Wk + (rng.chance(0.5) ? 0 : (int)rng.range(0, 3) * unit);
    maxLevels = std::max(maxLevels, levels);
  }
  if (rng.chance(0.4)) for (int i = (int)rows.size() - 1; i > 0; --i) std::swap(rows[i], rows[rng.range(0, i)]);
  long long rowArea = 0;
  for (auto &r : rows) rowArea += (long long)r.width() * r.height();
  int nFixed = (int)rng.range(0, std::min(o.maxFixed, 3));
  int nMov = (int)rng.range(std::max(2, o.minCells), std::max(4, std::min(o.maxCells, 40)));
  double util = o.utilLo + (o.utilHi - o.utilLo) * rng.unif();
  int total = nFixed + nMov;
  std::vector<int> w(total), h(total), cx(total), cy(total);
  std::vector<bool> fx(total, false), ob(total, true);
  std::vector<CellRowPolarity> pol(total, CellRowPolarity::ANY);
  std::vector<CellOrientation> ori(total, CellOrientation::N);
  long long used = 0;
  for (int i = 0; i < total; ++i) {
    if (i < nFixed) {
      fx[i] = true; ob[i] = rng.chance(o.obstructionProb);
      w[i] = (int)rng.range(1, 5) * unit; h[i] = (int)rng.range(1, 2) * H;
      cx[i] = x0 + (int)rng.range(-3, (x - x0) / unit) * unit; cy[i] = y0 + (int)rng.range(-H / unit, maxLevels * H / unit + H / unit) * unit;
      continue;
    }
    int nr = (o.multiRow && rng.chance(o.multiRowProb) && maxLevels >= 2) ? 2 : 1;
    w[i] = (int)rng.range(1, 5) * unit; h[i] = nr * H;
    if ((double)(used + (long long)w[i] * h[i]) > util * (double)rowArea && i > nFixed) { w[i] = unit; h[i] = H; }
    used += (long long)w[i] * h[i];
    cx[i] = x0 + (int)rng.range(-3, (x - x0) / unit + 3) * unit + (int)rng.range(0, unit - 1);
    cy[i] = y0 + (int)rng.range(-H / unit, (maxLevels + 2) * H / unit) * unit + (int)rng.range(0, unit - 1);
    if (o.polarity && rng.chance(o.polarityProb)) pol[i] = rng.chance(0.5) ? CellRowPolarity::SAME : CellRowPolarity::OPPOSITE;
    if (pol[i] == CellRowPolarity::ANY && rng.chance(0.3)) ori[i] = UNTURNED4[rng.range(0, 3)];
  }
  Circuit c(total);
  c.setCellWidth(w); c.setCellHeight(h); c.setCellIsFixed(fx); c.setCellIsObstruction(ob);
  c.setCellX(cx); c.setCellY(cy); c.setCellRowPolarity(pol); c.setCellOrientation(ori); c.setRows(rows);
  int nNets = (int)rng.range(0, o.maxNets);
  for (int n = 0; n < nNets; ++n) {
    int deg = (int)rng.range(2, 4);
    std::vector<int> cells, xo, yo;
    for (int j = 0; j < deg; ++j) { int cc = (int)rng.range(0, total - 1); cells.push_back(cc); xo.push_back((int)rng.range(0, w[cc])); yo.push_back((int)rng.range(0, h[cc])); }
    c.addNet(cells, xo, yo, 1.0f);
  }
  c.hasCellSizeUpdate_ = false;
  c.hasNetUpdate_ = false;
  c.check();
  return c;
}

// ------------------------------------------------------------------------------------------------
// Generator of circuits in the C01 domain
inline Circuit genCircuit(Rng &rng, const GenOpts &o) {
  if (o.comb) return genCombCircuit(rng, o);
  if (o.staggered) return genStaggeredCircuit(rng, o);
  long long sc = o.scale;
  long long scy = o.rowHeightOverride > 0 ? o.rowHeightOverride : sc;  // y scale
  int H = (int)(rng.pick(std::vector<int>{1, 2, 3, 4, 5, 8, 10, 12}) * scy);
  int nRowsY = (int)rng.range(1, o.maxRows);
  int Wu = (int)rng.range(6, 60);  // width in units of scale
  if (o.minCells >= 30) Wu = (int)rng.range(40, 160);
  if (o.minRowWidth4H) Wu = std::max<long long>(Wu, 4LL * (H / sc + 1) + 6 + 8);
  if (o.narrowRows) Wu = (int)(4LL * (H / sc + 1) + 6 + 8);
  int W = (int)(Wu * sc);
  int x0 = (int)(rng.range(-20, 20) * sc);
  int y0 = (int)(rng.range(-20, 20) * scy);
  std::vector<Row> rows;
  int y = y0;
  int orientPattern = o.rowOrientPattern >= 0 ? o.rowOrientPattern : (int)rng.range(0, 3);
  static const CellOrientation rowO[4] = {CellOrientation::N, CellOrientation::FS, CellOrientation::S, CellOrientation::FN};
  int minSegU = o.minRowWidth4H ? 4 * (H / (int)sc + 1) + 1 : 2;
  for (int r = 0; r < nRowsY; ++r) {
    CellOrientation ro;
    if (orientPattern == 0) ro = (r % 2 == 0) ? CellOrientation::N : CellOrientation::FS;
    else if (orientPattern == 1) ro = CellOrientation::N;
    else if (orientPattern == 2) ro = (r % 2 == 0) ? CellOrientation::FS : CellOrientation::N;
    else ro = rowO[rng.range(0, 3)];
    if (o.splitRows && rng.chance(o.splitProb) && Wu >= 2 * minSegU + 4) {
      int cut1 = (int)(rng.range(minSegU, Wu - minSegU - 2) * sc);
      int cut2 = (int)std::min<long long>(W, cut1 + rng.range(0, 3) * sc);
      if (W - cut2 < minSegU * sc) cut2 = W;  // keep every segment in the domain
      rows.emplace_back(x0, x0 + cut1, y, y + H, ro);
      // the second segment of a y level usually shares the orientation of the first, sometimes it has its own
      CellOrientation ro2 = rng.chance(0.2) ? rowO[rng.range(0, 3)] : ro;
      if (cut2 < W) rows.emplace_back(x0 + cut2, x0 + W, y, y + H, ro2);
    } else {
      int dx0 = rng.chance(0.2) ? (int)(rng.range(0, 3) * sc) : 0;
      int dx1 = rng.chance(0.2) ? (int)(rng.range(0, 3) * sc) : 0;
      if (o.minRowWidth4H && W - dx0 - dx1 < minSegU * sc) dx0 = dx1 = 0;
      rows.emplace_back(x0 + dx0, x0 + W - dx1, y, y + H, ro);
    }
    y += H;
    if (o.gaps && rng.chance(0.15)) y += (int)rng.range(1, 2) * H;
  }
  if (rng.chance(0.3)) {  // rows in arbitrary order
    for (int i = (int)rows.size() - 1; i > 0; --i) std::swap(rows[i], rows[rng.range(0, i)]);
  }
  long long rowArea = 0;
  for (auto &r : rows) rowArea += (long long)r.width() * r.height();
  int nFixed = (int)rng.range(0, o.maxFixed);
  int nMov = (int)rng.range(o.minCells, o.maxCells);
  double util = o.utilLo + (o.utilHi - o.utilLo) * rng.unif();
  if (o.widthMax > 0) {
    // crowded profile: the number of cells follows from the target utilisation
    double avgArea = (1 + o.widthMax) / 2.0 * (double)sc * H;
    nMov = (int)std::max(1.0, std::min((double)nMov, util * (double)rowArea / avgArea));
  }
  std::vector<int> w, h, fx, obs, cx, cy;
  std::vector<CellRowPolarity> pol;
  std::vector<CellOrientation> ori;
  long long used = 0;
  int yTop = y;
  int total = nFixed + nMov;
  std::vector<int> isF(total, 0);
  for (int i = 0; i < nFixed; ++i) isF[i] = 1;
  if (o.fixedOrder == 0) for (int i = total - 1; i > 0; --i) std::swap(isF[i], isF[rng.range(0, i)]);
  else if (o.fixedOrder == 2) std::reverse(isF.begin(), isF.end());
  int Hu = H / (int)scy;
  int stackX = (int)(x0 + rng.range(0, Wu) * sc), stackY = (int)(y0 + rng.range(0, std::max<long long>(1, (yTop - y0) / scy)) * scy);
  for (int i = 0; i < total; ++i) {
    if (isF[i]) {
      int fw = rng.chance(0.15) ? 0 : (int)(rng.range(1, std::max(1, Wu / 3)) * sc);
      int fh = rng.chance(0.15) ? 0 : (int)(rng.range(1, 3 * Hu) * scy);
      if (rng.chance(0.3)) fh = H * (int)rng.range(1, 2);
      if (o.bigFixed && rng.chance(0.7)) {
        fw = (int)(rng.range(1, std::max(1, Wu / 2)) * sc);
        fh = H * (int)rng.range(1, std::max(1, nRowsY / 2 + 1));
      }
      if (o.fixedTallOnly && fh == H) fh = 2 * H;
      w.push_back(fw);
      h.push_back(fh);
      fx.push_back(1);
      obs.push_back(rng.chance(o.obstructionProb));
      cx.push_back((int)(x0 + rng.range(-5, Wu + 2) * sc));
      cy.push_back((int)(y0 + rng.range(-3 * Hu, (yTop - y0) / scy + 2) * scy));
      pol.push_back(rng.chance(0.8) ? CellRowPolarity::ANY : rng.pick(std::vector<CellRowPolarity>{CellRowPolarity::SAME, CellRowPolarity::NW, CellRowPolarity::SE, CellRowPolarity::OPPOSITE}));
      ori.push_back(o.allTurned ? ALL8[(int)rng.pick(std::vector<int>{2, 3, 6, 7})] : ALL8[rng.range(0, 7)]);
    } else {
      int nr = 1;
      if (o.multiRow && rng.chance(o.multiRowProb) && !(o.feasiblePolarity && nRowsY < 2)) nr = (int)rng.range(std::min(o.minMultiRows, std::max(2, nRowsY)), std::max(std::min(o.minMultiRows, std::max(2, nRowsY)), std::min(4, std::max(2, nRowsY))));
      int cw = (int)(rng.range(1, std::max(1, Wu / 4)) * sc);
      if (rng.chance(0.1)) cw = (int)(rng.range(1, std::max(1, Wu / 2)) * sc);
      if (o.widthMax > 0) cw = (int)(rng.range(1, o.widthMax) * sc);
      // widths that are not multiples of the scale, but never tiny relative to it: the density grid resolution is
      // 5 x the smallest positive stored cell height (a turned cell stores its width there), so a 1-unit cell in a design
      // millions of units wide asks for ~10^10 bins (memory exhaustion, not a property of interest)
      if (sc > 1 && rng.chance(0.5)) cw = std::max<int>(std::max<long long>(1, sc / 2), cw - (int)rng.range(0, sc - 1));
      int ch = nr * H;
      long long a = (long long)cw * ch;
      if (used + a > util * rowArea && used > 0) {
        cw = (int)sc;
        ch = H;
        a = (long long)cw * ch;
      }
      // keep every cell area below 2^31 (supported magnitude box)
      while ((long long)cw * ch >= (1LL << 31) && cw > 1) cw /= 2;
      used += (long long)cw * ch;
      CellRowPolarity p = CellRowPolarity::ANY;
      if (o.polarity && rng.chance(o.polarityProb)) {
        static const CellRowPolarity pp[4] = {CellRowPolarity::SAME, CellRowPolarity::OPPOSITE, CellRowPolarity::NW, CellRowPolarity::SE};
        p = pp[rng.range(0, o.feasiblePolarity ? 1 : 3)];
      }
      CellOrientation oo;
      int sw = cw, sh = ch;  // stored (unrotated) size
      if (p == CellRowPolarity::ANY) {
        oo = o.turned ? ALL8[rng.range(0, 7)] : UNTURNED4[rng.range(0, 3)];
        if (o.allTurned) oo = ALL8[(int)rng.pick(std::vector<int>{2, 3, 6, 7})];
        if (turnedO(oo)) std::swap(sw, sh);
      } else {
        oo = UNTURNED4[rng.range(0, 3)];
      }
      w.push_back(sw);
      h.push_back(sh);
      fx.push_back(0);
      obs.push_back(rng.chance(0.8));
      if (o.startMode == 1) {
        cx.push_back(stackX);
        cy.push_back(stackY);
      } else if (o.startMode == 2) {
        cx.push_back(stackX);
        cy.push_back((int)(y0 + rng.range(-Hu, (yTop - y0) / scy + Hu) * scy));
      } else if (o.startMode == 3) {
        cx.push_back((int)(x0 + rng.range(0, std::max(1, Wu / 8)) * 8 * sc));
        cy.push_back((int)(y0 + rng.range(0, std::max<long long>(1, (yTop - y0) / scy / 2)) * 2 * scy));
      } else if (o.farInit && rng.chance(0.1)) {
        cx.push_back((int)(x0 + rng.range(-200, 200) * sc));
        cy.push_back((int)(y0 + rng.range(-200, 200) * scy));
      } else {
        cx.push_back((int)(x0 + rng.range(-3, Wu + 3) * sc + rng.range(0, sc - 1)));
        cy.push_back((int)(y0 + rng.range(-Hu, (yTop - y0) / scy + Hu) * scy + rng.range(0, scy - 1)));
      }
      pol.push_back(p);
      ori.push_back(oo);
    }
  }
  Circuit c(total);
  c.setCellWidth(w);
  c.setCellHeight(h);
  std::vector<bool> bf(fx.begin(), fx.end()), bo(obs.begin(), obs.end());
  c.setCellIsFixed(bf);
  c.setCellIsObstruction(bo);
  c.setCellX(cx);
  c.setCellY(cy);
  c.setCellRowPolarity(pol);
  c.setCellOrientation(ori);
  c.setRows(rows);
  int nNets = (int)rng.range(0, o.maxNets);
  for (int n = 0; n < nNets; ++n) {
    int deg = rng.chance(0.1) ? 1 : (int)rng.range(2, std::min(o.maxDegree, std::max(2, total + 1)));
    if (o.maxDegree > 2 && rng.chance(o.bigNetProb)) deg = (int)rng.range(20, 70);
    std::vector<int> cells, xo, yo;
    if (o.centredPins && rng.chance(0.6)) {
      // pins in pairs that are symmetric about the cell centre: the exact right-hand side of the quadratic system
      // vanishes and only rounding noise is left
      int pairs = (int)rng.range(1, 3);
      for (int k = 0; k < pairs; ++k) {
        int cc = (int)rng.range(0, total - 1);
        int dx = (int)rng.range(0, 3), dy = (int)rng.range(0, 3);
        bool evenW = w[cc] % 2 == 0, evenH = h[cc] % 2 == 0;
        // centre is w/2 (even) or between w/2 and w/2+1 (odd)
        cells.push_back(cc); xo.push_back(w[cc] / 2 - dx); yo.push_back(h[cc] / 2 - dy);
        cells.push_back(cc); xo.push_back(w[cc] / 2 + dx + (evenW ? 0 : 1)); yo.push_back(h[cc] / 2 + dy + (evenH ? 0 : 1));
      }
      if (rng.chance(0.5)) { int cc = (int)rng.range(0, total - 1); if (w[cc] % 2 == 0 && h[cc] % 2 == 0) { cells.push_back(cc); xo.push_back(w[cc] / 2); yo.push_back(h[cc] / 2); } }
      // shuffle the pins: the partial sums then cancel only up to rounding
      for (int i = (int)cells.size() - 1; i > 0; --i) {
        int j = (int)rng.range(0, i);
        std::swap(cells[i], cells[j]); std::swap(xo[i], xo[j]); std::swap(yo[i], yo[j]);
      }
      float wt = (float)rng.pick(std::vector<double>{0.25, 0.5, 1.0, 1.5, 2.5, 3.0, 0.3, 0.7});
      c.addNet(cells, xo, yo, wt);
      continue;
    }
    for (int k = 0; k < deg; ++k) {
      int cc = (int)rng.range(0, total - 1);
      cells.push_back(cc);
      if (o.centredPins && rng.chance(0.8)) {
        int dx = rng.chance(0.5) ? 0 : (int)rng.range(-2, 2), dy = rng.chance(0.5) ? 0 : (int)rng.range(-2, 2);
        xo.push_back(w[cc] / 2 + dx);
        yo.push_back(h[cc] / 2 + dy);
      } else if (rng.chance(0.1)) {
        xo.push_back((int)(rng.range(-5, 25) * sc));
        yo.push_back((int)(rng.range(-5, 25) * scy));
      } else {
        xo.push_back((int)rng.range(0, std::max(0, w[cc])));
        yo.push_back((int)rng.range(0, std::max(0, h[cc])));
      }
    }
    float wt = (!o.weights || rng.chance(0.7)) ? 1.0f : (float)rng.pick(std::vector<double>{0.25, 0.5, 1.5, 2.0, 2.5, 3.0});
    c.addNet(cells, xo, yo, wt);
  }
  c.hasCellSizeUpdate_ = false;
  c.hasNetUpdate_ = false;
  c.check();
  return c;
}

// ------------------------------------------------------------------------------------------------
// Independent free-space / legality oracle
struct Seg {
  int lo, hi;
};

inline std::vector<Seg> freeSegments(const Circuit &c, const Row &row, const std::vector<Rectangle> &extra = {}) {
  std::vector<Seg> blocked;
  auto add = [&](long long ax, long long bx, long long ay, long long by) {
    if (bx <= ax || by <= ay) return;  // empty
    if (ax < row.maxX && row.minX < bx && ay < row.maxY && row.minY < by)
      blocked.push_back({(int)std::max<long long>(ax, row.minX), (int)std::min<long long>(bx, row.maxX)});
  };
  for (int i = 0; i < c.nbCells(); ++i) {
    if (!c.cellIsFixed_[i] || !c.cellIsObstruction_[i]) continue;
    long long ax = c.cellX_[i], ay = c.cellY_[i];
    add(ax, ax + pW(c, i), ay, ay + pH(c, i));
  }
  for (auto &r : extra) add(r.minX, r.maxX, r.minY, r.maxY);
  std::sort(blocked.begin(), blocked.end(), [](Seg a, Seg b) { return a.lo < b.lo; });
  std::vector<Seg> ret;
  int cur = row.minX;
  for (auto s : blocked) {
    if (s.lo > cur) ret.push_back({cur, s.lo});
    cur = std::max(cur, s.hi);
  }
  if (cur < row.maxX) ret.push_back({cur, row.maxX});
  return ret;
}

// returns "" if legal, otherwise a description of the first problem
inline std::string checkLegal(const Circuit &c) {
  if (c.nbRows() == 0) return "no rows";
  int H = c.rows_[0].height();
  std::map<int, std::vector<Seg>> freeAtY;
  for (auto &r : c.rows_) {
    auto f = freeSegments(c, r);
    auto &v = freeAtY[r.minY];
    v.insert(v.end(), f.begin(), f.end());
  }
  std::ostringstream err;
  struct R {
    long long ax, bx, ay, by;
    int id;
  };
  std::vector<R> rects;
  for (int i = 0; i < c.nbCells(); ++i) {
    if (c.cellIsFixed_[i]) continue;
    CellOrientation o = c.cellOrientation_[i];
    if ((int)o < 0 || (int)o > 7) {
      err << "cell " << i << " has orientation " << oname(o);
      return err.str();
    }
    long long pw = pW(c, i), ph = pH(c, i);
    long long x = c.cellX_[i], y = c.cellY_[i];
    if (ph <= 0 || ph % H != 0) {
      err << "cell " << i << " placed height " << ph << " not a positive multiple of " << H;
      return err.str();
    }
    for (int k = 0; k < ph / H; ++k) {
      auto it = freeAtY.find((int)(y + (long long)k * H));
      if (it == freeAtY.end()) {
        err << "cell " << i << " strip " << k << " at y=" << y + (long long)k * H << " is not on a row boundary";
        return err.str();
      }
      bool ok = false;
      for (auto s : it->second)
        if (s.lo <= x && x + pw <= s.hi) ok = true;
      if (!ok) {
        err << "cell " << i << " strip " << k << " x=" << x << ".." << x + pw << " y=" << y + (long long)k * H << " not inside one free row segment";
        return err.str();
      }
    }
    rects.push_back({x, x + pw, y, y + ph, i});
  }
  for (size_t a = 0; a < rects.size(); ++a)
    for (size_t b = a + 1; b < rects.size(); ++b) {
      auto &p = rects[a];
      auto &q = rects[b];
      if (p.ax < q.bx && q.ax < p.bx && p.ay < q.by && q.ay < p.by) {
        err << "movable cells " << p.id << " and " << q.id << " overlap";
        return err.str();
      }
    }
  return "";
}

// Own table: row orientation x polarity -> required orientation (INVALID = forbidden row)
inline CellOrientation requiredOrientation(CellRowPolarity p, CellOrientation ro) {
  auto opp = [](CellOrientation r) {
    switch (r) {
      case CellOrientation::N: return CellOrientation::FS;
      case CellOrientation::FS: return CellOrientation::N;
      case CellOrientation::S: return CellOrientation::FN;
      case CellOrientation::FN: return CellOrientation::S;
      default: return CellOrientation::INVALID;
    }
  };
  switch (p) {
    case CellRowPolarity::SAME: return ro;
    case CellRowPolarity::OPPOSITE: return opp(ro);
    case CellRowPolarity::NW: return (ro == CellOrientation::N || ro == CellOrientation::FN) ? ro : CellOrientation::INVALID;
    case CellRowPolarity::SE: return (ro == CellOrientation::S || ro == CellOrientation::FS) ? ro : CellOrientation::INVALID;
    default: return CellOrientation::UNKNOWN;
  }
}

// polarity check (C04). initO = orientations before the call (for ANY cells)
inline std::string checkPolarity(const Circuit &c, const std::vector<CellOrientation> &initO) {
  std::ostringstream err;
  for (int i = 0; i < c.nbCells(); ++i) {
    if (c.cellIsFixed_[i]) continue;
    CellRowPolarity p = c.cellRowPolarity_[i];
    CellOrientation o = c.cellOrientation_[i];
    if ((int)o < 0 || (int)o > 7) {
      err << "cell " << i << " (polarity " << pname(p) << ") has orientation " << oname(o);
      return err.str();
    }
    if (p == CellRowPolarity::ANY) {
      if (o != initO[i]) {
        err << "cell " << i << " without polarity changed orientation " << oname(initO[i]) << "->" << oname(o);
        return err.str();
      }
      continue;
    }
    CellOrientation ro = CellOrientation::UNKNOWN;
    for (auto &r : c.rows_)
      if (r.minY == c.cellY_[i] && r.minX <= c.cellX_[i] && c.cellX_[i] < r.maxX) ro = r.orientation;
    if (ro == CellOrientation::UNKNOWN) {
      // fall back: any row at this y (all rows at one y share an orientation in the domain)
      for (auto &r : c.rows_)
        if (r.minY == c.cellY_[i]) ro = r.orientation;
    }
    if (ro == CellOrientation::UNKNOWN) {
      err << "polarised cell " << i << " bottom edge y=" << c.cellY_[i] << " is not on a row";
      return err.str();
    }
    CellOrientation exp = requiredOrientation(p, ro);
    if (exp == CellOrientation::INVALID) {
      err << "cell " << i << " polarity " << pname(p) << " sits on forbidden row orientation " << oname(ro) << " (cell orientation " << oname(o) << ")";
      return err.str();
    }
    if (o != exp) {
      err << "cell " << i << " polarity " << pname(p) << " on row " << oname(ro) << " has orientation " << oname(o) << ", expected " << oname(exp);
      return err.str();
    }
  }
  return "";
}

// Reference pin location offset: DEF orientation transform of the stored offset within the stored cell size
inline void refPinOffset(CellOrientation o, long long w, long long h, long long ox, long long oy, long long &px, long long &py) {
  switch (o) {
    case CellOrientation::N: px = ox; py = oy; break;
    case CellOrientation::S: px = w - ox; py = h - oy; break;
    case CellOrientation::W: px = h - oy; py = ox; break;       // R90
    case CellOrientation::E: px = oy; py = w - ox; break;       // R270
    case CellOrientation::FN: px = w - ox; py = oy; break;      // MY
    case CellOrientation::FS: px = ox; py = h - oy; break;      // MX
    case CellOrientation::FW: px = oy; py = ox; break;          // MX then R90
    case CellOrientation::FE: px = h - oy; py = w - ox; break;  // MY then R90
    default: px = ox; py = oy;
  }
}

inline long long refHpwl(const Circuit &c) {
  long long tot = 0;
  for (int n = 0; n < c.nbNets(); ++n) {
    long long mnx = LLONG_MAX, mxx = LLONG_MIN, mny = LLONG_MAX, mxy = LLONG_MIN;
    if (c.netLimits_[n] == c.netLimits_[n + 1]) continue;
    for (int p = c.netLimits_[n]; p < c.netLimits_[n + 1]; ++p) {
      int cell = c.pinCells_[p];
      long long px, py;
      refPinOffset(c.cellOrientation_[cell], c.cellWidth_[cell], c.cellHeight_[cell], c.pinXOffsets_[p], c.pinYOffsets_[p], px, py);
      px += c.cellX_[cell];
      py += c.cellY_[cell];
      mnx = std::min(mnx, px);
      mxx = std::max(mxx, px);
      mny = std::min(mny, py);
      mxy = std::max(mxy, py);
    }
    tot += (mxx - mnx) + (mxy - mny);
  }
  return tot;
}

// ------------------------------------------------------------------------------------------------
// Frame snapshot (C03, C10): everything except positions/orientations of movable cells
inline bool rowsEqual(const std::vector<Row> &a, const std::vector<Row> &b) {
  if (a.size() != b.size()) return false;
  for (size_t i = 0; i < a.size(); ++i)
    if (a[i].minX != b[i].minX || a[i].maxX != b[i].maxX || a[i].minY != b[i].minY || a[i].maxY != b[i].maxY || a[i].orientation != b[i].orientation) return false;
  return true;
}
// returns "" when the frame is preserved. allOrient: additionally require every orientation unchanged
inline std::string frameDiff(const Circuit &before, const Circuit &after, bool allOrient) {
  if (before.cellWidth_ != after.cellWidth_) return "cell widths changed";
  if (before.cellHeight_ != after.cellHeight_) return "cell heights changed";
  if (before.cellIsFixed_ != after.cellIsFixed_) return "fixed flags changed";
  if (before.cellIsObstruction_ != after.cellIsObstruction_) return "obstruction flags changed";
  if (before.cellRowPolarity_ != after.cellRowPolarity_) return "polarities changed";
  if (before.netLimits_ != after.netLimits_) return "net limits changed";
  if (before.pinCells_ != after.pinCells_) return "pin cells changed";
  if (before.pinXOffsets_ != after.pinXOffsets_) return "pin x offsets changed";
  if (before.pinYOffsets_ != after.pinYOffsets_) return "pin y offsets changed";
  if (before.netWeights_ != after.netWeights_) return "net weights changed";
  if (!rowsEqual(before.rows_, after.rows_)) return "rows changed";
  if (before.cellX_.size() != after.cellX_.size() || before.cellY_.size() != after.cellY_.size() || before.cellOrientation_.size() != after.cellOrientation_.size())
    return "position vector sizes changed";
  for (int i = 0; i < before.nbCells(); ++i) {
    if (before.cellIsFixed_[i]) {
      if (before.cellX_[i] != after.cellX_[i] || before.cellY_[i] != after.cellY_[i]) return "fixed cell " + std::to_string(i) + " moved";
      if (before.cellOrientation_[i] != after.cellOrientation_[i]) return "fixed cell " + std::to_string(i) + " changed orientation";
    } else if (allOrient && before.cellOrientation_[i] != after.cellOrientation_[i]) {
      return "movable cell " + std::to_string(i) + " changed orientation";
    }
  }
  return "";
}
inline bool samePlacement(const Circuit &a, const Circuit &b) {
  return a.cellX_ == b.cellX_ && a.cellY_ == b.cellY_ && a.cellOrientation_ == b.cellOrientation_;
}

// random legalization / detailed parameters accepted by the parameter check
inline ColoquinteParameters genParams(Rng &rng, bool hostileDetailed, std::string *desc = nullptr) {
  int effort = (int)rng.range(1, 9);
  ColoquinteParameters params(effort, (int)rng.range(-1, 1000));
  params.legalization.orderingWidth = rng.chance(0.3) ? 0.2 : rng.unif(-1.0, 2.0);
  params.legalization.orderingY = rng.chance(0.3) ? 0.0 : rng.unif(-0.2, 0.2);
  params.legalization.orderingHeight = rng.chance(0.5) ? -1.0 : rng.unif(-2.0, 2.0);
  if (hostileDetailed && rng.chance(0.6)) {
    params.detailed.reorderingNbRows = (int)rng.range(1, 3);
    params.detailed.reorderingMaxNbCells = (int)rng.range(0, rng.chance(0.3) ? 7 : 5);
    if (rng.chance(0.2)) params.detailed.reorderingNbRows = 4;
    if (params.detailed.reorderingNbRows >= 3) params.detailed.reorderingMaxNbCells = std::min(params.detailed.reorderingMaxNbCells, 6);  // 7 cells over 3-4 rows: minutes of exhaustive search
    params.detailed.shiftNbRows = (int)rng.range(1, 6);
    params.detailed.shiftMaxNbCells = (int)rng.range(0, 40);
    params.detailed.nbPasses = (int)rng.range(0, 3);
    params.detailed.localSearchNbNeighbours = (int)rng.range(0, 10);
    params.detailed.localSearchNbRows = (int)rng.range(0, 4);
  }
  if (desc) {
    std::ostringstream ss;
    ss << "effort=" << effort << " seed=" << params.seed << " ordW=" << params.legalization.orderingWidth << " ordY=" << params.legalization.orderingY
       << " ordH=" << params.legalization.orderingHeight << " passes=" << params.detailed.nbPasses << " nbNeigh=" << params.detailed.localSearchNbNeighbours
       << " nbRows=" << params.detailed.localSearchNbRows << " shift=" << params.detailed.shiftNbRows << "/" << params.detailed.shiftMaxNbCells
       << " reorder=" << params.detailed.reorderingNbRows << "/" << params.detailed.reorderingMaxNbCells;
    *desc = ss.str();
  }
  return params;
}

// Features of a circuit used in distinctness signatures
struct Features {
  bool splitRows = false, gaps = false, obstructionOnRow = false, multiRow = false, turned = false, farStart = false;
  int polarityKinds = 0;
  int utilBucket = 0;
  int nMov = 0;
  bool allRowHighAny = true;
  std::string str() const {
    std::ostringstream s;
    s << (splitRows ? "S" : "-") << (gaps ? "G" : "-") << (obstructionOnRow ? "O" : "-") << (multiRow ? "M" : "-") << (turned ? "T" : "-") << (farStart ? "F" : "-") << "p" << polarityKinds << "u"
      << utilBucket << "n" << std::min(nMov / 4, 9);
    return s.str();
  }
};
inline Features features(const Circuit &c) {
  Features f;
  if (c.nbRows() == 0) return f;
  int H = c.rows_[0].height();
  std::map<int, int> perY;
  std::set<int> ys;
  for (auto &r : c.rows_) { perY[r.minY]++; ys.insert(r.minY); }
  for (auto &p : perY) if (p.second > 1) f.splitRows = true;
  int prev = INT_MIN;
  for (int yv : ys) { if (prev != INT_MIN && yv != prev + H) f.gaps = true; prev = yv; }
  long long freeW = 0, movArea = 0;
  for (auto &r : c.rows_) {
    auto fs = freeSegments(c, r);
    long long w = 0;
    for (auto s : fs) w += s.hi - s.lo;
    if (w != r.width()) f.obstructionOnRow = true;
    freeW += w;
  }
  std::set<int> pk;
  Rectangle area = c.computePlacementArea();
  for (int i = 0; i < c.nbCells(); ++i) {
    if (c.cellIsFixed_[i]) continue;
    f.nMov++;
    if (pH(c, i) != H) { f.multiRow = true; f.allRowHighAny = false; }
    if (turnedO(c.cellOrientation_[i])) f.turned = true;
    if (c.cellRowPolarity_[i] != CellRowPolarity::ANY) { pk.insert((int)c.cellRowPolarity_[i]); f.allRowHighAny = false; }
    movArea += (long long)pW(c, i) * pH(c, i);
    if (c.cellX_[i] < area.minX - 50LL * H || c.cellX_[i] > area.maxX + 50LL * H || c.cellY_[i] < area.minY - 50LL * H || c.cellY_[i] > area.maxY + 50LL * H) f.farStart = true;
  }
  f.polarityKinds = (int)pk.size();
  double u = freeW > 0 ? (double)movArea / ((double)freeW * H) : 9.9;
  f.utilBucket = u < 0.3 ? 0 : u < 0.6 ? 1 : u < 0.85 ? 2 : u <= 1.0 ? 3 : 4;
  return f;
}

// C01 trivial-success clause: row-high cells without polarity whose total width is at most the total
// free segment width less one maximum cell width per segment
inline bool trivialLegalization(const Circuit &c) {
  if (c.nbRows() == 0) return false;
  int H = c.rows_[0].height();
  long long totW = 0, maxW = 0;
  int n = 0;
  for (int i = 0; i < c.nbCells(); ++i) {
    if (c.cellIsFixed_[i]) continue;
    if (c.cellRowPolarity_[i] != CellRowPolarity::ANY) return false;
    if (pH(c, i) != H || pW(c, i) <= 0) return false;
    totW += pW(c, i);
    maxW = std::max<long long>(maxW, pW(c, i));
    ++n;
  }
  if (n == 0) return false;
  long long avail = 0;
  for (auto &r : c.rows_)
    for (auto s : freeSegments(c, r)) avail += (long long)(s.hi - s.lo) - maxW;
  return totW <= avail;
}

}  // namespace vfc

namespace vfc {
// Global placement parameters inside the "numerically moderate box" of C06/C07: everything the
// parameter check accepts, with CG tolerance >= 1e-6 and approximation/cutoff distances >= 0.1
inline void genGlobalParams(Rng &rng, ColoquinteParameters &p, std::string *desc = nullptr, int maxSteps = 40) {
  GlobalPlacerParameters &g = p.global;
  g.maxNbSteps = (int)rng.range(1, maxSteps);
  g.nbInitialSteps = rng.chance(0.7) ? 0 : (int)rng.range(0, std::min(3, g.maxNbSteps - 1));
  g.nbStepsBeforeRoughLegalization = rng.chance(0.7) ? 1 : (int)rng.range(1, 3);
  g.gapTolerance = rng.chance(0.5) ? g.gapTolerance : rng.unif(0.0, 1.0);
  g.distanceTolerance = rng.chance(0.5) ? 2.0 : rng.unif(0.0, 5.0);
  g.penaltyUpdateDistance = rng.chance(0.5) ? 10.0 : rng.unif(0.01, 50.0);
  g.penaltyUpdateBackoff = rng.chance(0.5) ? 2.0 : rng.unif(1.0, 4.0);
  g.exportBlending = rng.chance(0.3) ? 0.99 : (rng.chance(0.2) ? (rng.chance(0.5) ? 0.0 : 1.0) : rng.unif(-0.5, 1.5));
  g.noise = rng.chance(0.5) ? 1.0e-4 : (rng.chance(0.3) ? 0.0 : rng.unif(0.0, 2.0));
  ContinuousModelParameters &cm = g.continuousModel;
  cm.netModel = (NetModelOption)rng.range(0, 3);
  cm.approximationDistance = rng.chance(0.5) ? 2.0 : rng.unif(0.1, 50.0);
  cm.approximationDistanceUpdateFactor = rng.chance(0.5) ? 1.0 : rng.unif(0.8, 1.2);
  cm.maxNbConjugateGradientSteps = rng.chance(0.5) ? 1000 : (int)rng.range(1, 300);
  cm.conjugateGradientErrorTolerance = rng.chance(0.5) ? 1.0e-6 : std::pow(10.0, rng.unif(-6.0, 0.0));
  RoughLegalizationParameters &rl = g.roughLegalization;
  rl.costModel = (LegalizationModel)rng.range(0, 5);
  rl.nbSteps = (int)rng.range(0, 3);
  rl.binSize = rng.chance(0.4) ? 5.0 : rng.unif(1.0, 25.0);
  rl.lineReoptSize = rng.chance(0.2) ? (int)rng.range(1, 64) : (int)rng.range(1, 5);
  // wide windows advance by at least a quarter of their size: a 59-bin window advancing by 2 over a grid of one-unit bins is
  // legitimate but costs minutes of CPU under ASan (seen in a C08 quick run at seed 2), and the budgets decide "hang"
  auto overlapFor = [&](int size) { return size > 1 ? (int)rng.range(1, size > 8 ? size - size / 4 : size - 1) : (int)rng.range(1, 3); };
  rl.lineReoptOverlap = overlapFor(rl.lineReoptSize);
  rl.diagReoptSize = rng.chance(0.2) ? (int)rng.range(1, 64) : (int)rng.range(1, 4);
  rl.diagReoptOverlap = overlapFor(rl.diagReoptSize);
  rl.squareReoptSize = (int)rng.range(1, rng.chance(0.2) ? 8 : 3);
  rl.squareReoptOverlap = rl.squareReoptSize > 1 ? (int)rng.range(1, rl.squareReoptSize - 1) : (int)rng.range(1, 3);
  rl.unidimensionalTransport = rng.chance(0.5);
  if (rl.lineReoptSize < 2 && rl.diagReoptSize < 2 && rl.squareReoptSize < 2 && (!rl.unidimensionalTransport || rl.costModel != LegalizationModel::L1)) {
    rl.lineReoptSize = 2;
    rl.lineReoptOverlap = 1;
  }
  rl.quadraticPenalty = rng.chance(0.5) ? 0.001 : rng.unif(0.0, 1.0);
  rl.sideMargin = rng.chance(0.4) ? 0.9 : rng.unif(0.0, 1.5);
  rl.coarseningLimit = rng.chance(0.5) ? 100.0 : rng.unif(0.0, 10.0);
  rl.targetBlending = rng.chance(0.5) ? 0.0 : rng.unif(-0.1, 0.9);
  PenaltyParameters &pe = g.penalty;
  pe.cutoffDistance = rng.chance(0.5) ? 40.0 : rng.unif(0.1, 100.0);
  pe.cutoffDistanceUpdateFactor = rng.chance(0.5) ? 1.0 : rng.unif(0.8, 1.2);
  pe.areaExponent = rng.chance(0.5) ? 0.5 : rng.unif(0.49, 1.01);
  pe.initialValue = rng.chance(0.5) ? 0.03 : std::pow(10.0, rng.unif(-4.0, 1.0));
  pe.updateFactor = rng.chance(0.5) ? pe.updateFactor : rng.unif(1.001, 1.999);
  pe.targetBlending = rng.chance(0.5) ? 1.0 : rng.unif(0.1, 1.1);
  if (desc) {
    std::ostringstream ss;
    ss << "steps=" << g.maxNbSteps << " init=" << g.nbInitialSteps << " perRL=" << g.nbStepsBeforeRoughLegalization << " gap=" << g.gapTolerance << " distTol=" << g.distanceTolerance
       << " penUpd=" << g.penaltyUpdateDistance << "/" << g.penaltyUpdateBackoff << " blend=" << g.exportBlending << " noise=" << g.noise << " net=" << (int)cm.netModel
       << " approx=" << cm.approximationDistance << "*" << cm.approximationDistanceUpdateFactor << " cg=" << cm.maxNbConjugateGradientSteps << "/" << cm.conjugateGradientErrorTolerance
       << " cost=" << (int)rl.costModel << " rlSteps=" << rl.nbSteps << " bin=" << rl.binSize << " line=" << rl.lineReoptSize << "/" << rl.lineReoptOverlap << " diag=" << rl.diagReoptSize << "/"
       << rl.diagReoptOverlap << " sq=" << rl.squareReoptSize << "/" << rl.squareReoptOverlap << " 1d=" << rl.unidimensionalTransport << " quad=" << rl.quadraticPenalty << " margin=" << rl.sideMargin
       << " coarsen=" << rl.coarseningLimit << " rlBlend=" << rl.targetBlending << " cutoff=" << pe.cutoffDistance << "*" << pe.cutoffDistanceUpdateFactor << " areaExp=" << pe.areaExponent
       << " pen0=" << pe.initialValue << " penUp=" << pe.updateFactor << " penBlend=" << pe.targetBlending;
    *desc = ss.str();
  }
}

// Translate a whole circuit (rows, cells): used to move a block far away from the origin (e.g. a block whose origin is
// tens of millimetres from zero in nanometre units), where 24-bit float mantissas no longer hold the coordinates
inline void translateCircuit(Circuit &c, int dx, int dy) {
  for (int i = 0; i < c.nbCells(); ++i) { c.cellX_[i] += dx; c.cellY_[i] += dy; }
  for (auto &r : c.rows_) { r.minX += dx; r.maxX += dx; r.minY += dy; r.maxY += dy; }
}
inline void randomFarTranslation(Rng &rng, Circuit &c) {
  auto pick = [&]() { long long m = rng.range(1LL << 24, 1LL << 27); if (rng.chance(0.3)) m = rng.range(0, 1 << 20); return (int)(rng.chance(0.5) ? m : -m); };
  translateCircuit(c, pick(), pick());
}

// Named generator profiles
inline GenOpts makeProfile(Rng &rng, const std::string &name) {
  GenOpts o;
  o.maxCells = (int)rng.pick(std::vector<int>{6, 12, 20, 40});
  o.maxRows = (int)rng.pick(std::vector<int>{3, 6, 12});
  if (name == "general") {
  } else if (name == "rowhigh") {
    o.multiRow = false;
  } else if (name == "rowhigh-any") {
    o.multiRow = false; o.polarity = false;
  } else if (name == "multirow") {
    o.multiRowProb = 0.5; o.maxRows = 12; o.splitProb = 0.5;
  } else if (name == "turned") {
    o.polarityProb = 0.1;
  } else if (name == "polarity") {
    o.polarityProb = 0.9; o.turned = false; o.splitProb = 0.5;
  } else if (name == "dense") {
    o.utilLo = 0.85; o.utilHi = 1.1; o.maxCells = 60;
  } else if (name == "obstruction") {
    o.maxFixed = 6; o.obstructionProb = 0.95;
  } else if (name == "alltall") {
    // every movable cell three or four rows high on rows as narrow as the domain allows; one or two short fixed cells
    o.polarity = false; o.turned = false; o.multiRowProb = 1.0; o.minMultiRows = (int)rng.range(3, 4); o.narrowRows = true; o.maxRows = 12; o.maxFixed = 2; o.maxCells = std::min(o.maxCells, 12);
  } else if (name == "allturned") {
    // only turned cells, most of them several rows high once placed: the stored heights are the placed widths
    o.turned = true; o.allTurned = true; o.polarity = false; o.multiRowProb = rng.chance(0.5) ? 1.0 : 0.6; o.maxRows = 12; o.maxFixed = 1;
    if (rng.chance(0.4)) { o.multiRowProb = 1.0; o.minMultiRows = (int)rng.range(3, 4); o.narrowRows = true; o.maxCells = std::min(o.maxCells, 12); }
  } else if (name == "staggered") {
    o.staggered = true; o.turned = false; o.polarityProb = 0.2; o.maxNets = 25; o.maxCells = 40; o.multiRowProb = 0.1; o.utilHi = 0.8;
  } else if (name == "comb") {
    o.comb = true; o.multiRow = false; o.turned = false; o.polarityProb = 0.2; o.maxNets = 25; o.maxCells = 40;
  } else if (name == "blocked") {
    o.maxFixed = 8; o.obstructionProb = 1.0; o.bigFixed = true; o.maxRows = 12; o.minCells = 8; o.maxCells = 40; o.utilHi = 0.6;
  } else if (name == "manyfixed") {
    o.maxFixed = 10; o.obstructionProb = 0.5; o.maxNets = 25;
  } else if (name == "nets") {
    o.maxNets = 40; o.maxCells = 40; o.utilHi = 0.7; o.bigNetProb = 0.08;
  } else if (name == "big") {
    o.scale = (int)rng.pick(std::vector<int>{100, 1000, 5000, 13000});
  } else if (name == "wide") {
    o.scale = (int)rng.pick(std::vector<int>{1000, 10000, 60000});
    // keep the number of density bins per row in the low thousands (width / (5 x height))
    o.rowHeightOverride = o.scale == 1000 ? (int)rng.pick(std::vector<int>{40, 100}) : o.scale == 10000 ? (int)rng.pick(std::vector<int>{100, 400}) : (int)rng.pick(std::vector<int>{400, 1000});
    o.maxCells = std::min(o.maxCells, 20);
  } else if (name == "big20") {
    // scaled sizes and coordinates that stay below 2^20 (C11's exactness bound for the float ordering key)
    o.scale = (int)rng.pick(std::vector<int>{100, 1000, 3000});
    o.farInit = false; o.maxRows = std::min(o.maxRows, 6);
  } else if (name == "faraway") {
    o.farInit = false;  // keep |coordinates| below 2^28 after the translation applied by the harness
    o.maxNets = 30;
  } else if (name == "crowded") {
    // many narrow cells in few rows, many ties in the start positions, fixed cells first or last in the index order
    o.maxRows = (int)rng.pick(std::vector<int>{1, 2, 3, 5});
    o.minCells = 30; o.maxCells = (int)rng.pick(std::vector<int>{60, 120, 200});
    o.widthMax = (int)rng.pick(std::vector<int>{1, 2, 3});
    o.startMode = (int)rng.range(0, 3);
    o.fixedOrder = (int)rng.range(0, 2);
    o.multiRowProb = 0.03; o.polarityProb = rng.chance(0.5) ? 0.0 : 0.5;
    o.utilLo = 0.3; o.utilHi = 1.0; o.maxNets = 60; o.feasiblePolarity = true; o.maxFixed = 2;
  } else if (name == "floating") {
    // no fixed cells at all: every net is a floating component of the quadratic system; pins at the cell centres
    o.maxFixed = 0; o.centredPins = true; o.maxNets = 8; o.maxCells = std::min(o.maxCells, 12);
  } else if (name == "degenerate") {
    int k = (int)rng.range(0, 5);
    if (k == 0) { o.maxRows = 1; }
    else if (k == 1) { o.maxCells = 1; }
    else if (k == 2) { o.maxNets = 0; }
    else if (k == 3) { o.maxCells = 1; o.maxFixed = 6; }
    else if (k == 4) { o.utilLo = 1.05; o.utilHi = 1.6; }
    else { o.maxDegree = 2; o.maxNets = 30; }
  }
  return o;
}
}  // namespace vfc
