// C12: RowLegalizer against a brute-force / isotonic DP optimum; prediction == push; queries leave the state unchanged
#include <climits>
#include <functional>

#include "place_detailed/row_legalizer.hpp"
#include <memory>
#include "vf.hpp"

using namespace coloquinte;
using vf::CaseResult;
using vf::Rng;

// optimum of the ordered single-row problem: isotonic L1 regression on "absolute" positions
// y_i = x_i - sum_{j<i} w_j, b <= y_0 <= ... <= y_{n-1} <= e - W.  O(n^2) over the candidate set.
static long long isoOpt(long long b, long long e, const std::vector<int> &w, const std::vector<int> &t) {
  int n = (int)w.size();
  if (n == 0) return 0;
  std::vector<long long> a(n), cum(n + 1, 0);
  for (int i = 0; i < n; ++i) cum[i + 1] = cum[i] + w[i];
  long long hi = e - cum[n], lo = b;
  std::vector<long long> cand = {lo, hi};
  for (int i = 0; i < n; ++i) {
    a[i] = (long long)t[i] - cum[i];
    cand.push_back(std::min(hi, std::max(lo, a[i])));
  }
  std::sort(cand.begin(), cand.end());
  cand.erase(std::unique(cand.begin(), cand.end()), cand.end());
  int m = (int)cand.size();
  std::vector<long long> dp(m, 0), nd(m);
  for (int i = 0; i < n; ++i) {
    long long best = LLONG_MAX;
    for (int k = 0; k < m; ++k) {
      best = std::min(best, dp[k]);  // y_{i-1} <= cand_k
      nd[k] = best + (long long)w[i] * std::llabs(cand[k] - a[i]);
    }
    dp = nd;
  }
  return *std::min_element(dp.begin(), dp.end());
}

// brute force over integer positions (small segments only); independent of isoOpt
static long long bruteOpt(int b, int e, const std::vector<int> &w, const std::vector<int> &t) {
  int n = (int)w.size();
  const long long INF = LLONG_MAX / 4;
  int L = e - b;
  std::vector<std::vector<long long>> dp(n + 1, std::vector<long long>(L + 2, INF));
  for (int x = 0; x <= L; ++x) dp[n][x] = 0;
  for (int i = n - 1; i >= 0; --i)
    for (int x = L; x >= 0; --x) {
      long long best = (x + 1 <= L) ? dp[i][x + 1] : INF;
      if (x + w[i] <= L && dp[i + 1][x + w[i]] < INF) best = std::min(best, (long long)w[i] * std::llabs((long long)(b + x) - t[i]) + dp[i + 1][x + w[i]]);
      dp[i][x] = best;
    }
  return dp[0][0];
}

static std::string seqStr(int b, int e, const std::vector<int> &w, const std::vector<int> &t) {
  std::ostringstream s;
  s << "segment [" << b << "," << e << ") cells(width,target):";
  for (size_t i = 0; i < w.size(); ++i) s << " (" << w[i] << "," << t[i] << ")";
  return s.str();
}

// Run one sequence; queryMask bit i: query the cost (twice) before pushing cell i. The last cell is always queried.
// Checks the final prefix only (ancestors are checked when they are enumerated).
static bool checkSequence(int b, int e, const std::vector<int> &w, const std::vector<int> &t, bool useBrute, CaseResult &r, unsigned long long queryMask = ~0ull) {
  int n = (int)w.size();
  RowLegalizer a(b, e), q(b, e);  // a: with queries, q: never queried
  long long sumA = 0, sumQ = 0, sumC = 0;
  std::unique_ptr<RowLegalizer> cpy;  // a copy of 'a' taken half way: an independent legalizer with the same future
  for (int i = 0; i < n; ++i) {
    bool last = i + 1 == n;
    if (n >= 2 && i == n / 2) { cpy.reset(new RowLegalizer(a)); sumC = sumA; }
    if (cpy) sumC += cpy->push(w[i], t[i]);
    if (last || (queryMask >> (i & 63) & 1)) {
      long long c1 = a.getCost(w[i], t[i]);
      long long c1b = a.getCost(w[i], t[i]);
      long long c2 = a.push(w[i], t[i]);
      if (c1 != c1b) { r.fail("C12:query-changed-state", "two consecutive getCost differ (" + std::to_string(c1) + " vs " + std::to_string(c1b) + ") at cell " + std::to_string(i) + ": " + seqStr(b, e, w, t)); return false; }
      if (c1 != c2) { r.fail("C12:prediction-differs-from-push", "getCost=" + std::to_string(c1) + " push=" + std::to_string(c2) + " at cell " + std::to_string(i) + ": " + seqStr(b, e, w, t)); return false; }
      sumA += c2;
    } else {
      sumA += a.push(w[i], t[i]);
    }
    sumQ += q.push(w[i], t[i]);
  }
  std::vector<int> pa = a.getPlacement(), pq = q.getPlacement();
  if (cpy && (cpy->getPlacement() != pa || sumC != sumA)) { r.fail("C12:copy-of-the-legalizer-diverges", "a copy taken after " + std::to_string(n / 2) + " insertions ends with another placement or other costs: " + seqStr(b, e, w, t)); return false; }
  if (pa != pq || sumA != sumQ) { r.fail("C12:query-changed-state", "placement or reported costs differ between a queried and an unqueried legalizer: " + seqStr(b, e, w, t)); return false; }
  try { a.check(); } catch (const std::exception &ex) { r.fail("C12:check-failed", std::string(ex.what()) + ": " + seqStr(b, e, w, t)); return false; }
  if ((int)pa.size() != n) { r.fail("C12:placement-size", seqStr(b, e, w, t)); return false; }
  long long real = 0;
  for (int j = 0; j < n; ++j) {
    if (pa[j] < b || pa[j] + w[j] > e) { r.fail("C12:placement-outside-segment", "cell " + std::to_string(j) + " at " + std::to_string(pa[j]) + ": " + seqStr(b, e, w, t)); return false; }
    if (j + 1 < n && pa[j] + w[j] > pa[j + 1]) { r.fail("C12:placement-overlap-or-order", "cells " + std::to_string(j) + "," + std::to_string(j + 1) + ": " + seqStr(b, e, w, t)); return false; }
    real += (long long)w[j] * std::llabs((long long)pa[j] - t[j]);
  }
  long long opt = isoOpt(b, e, w, t);
  if (useBrute) {
    long long bo = bruteOpt(b, e, w, t);
    if (bo != opt) { r.fail("harness:oracles-disagree", "isotonic DP " + std::to_string(opt) + " vs brute force " + std::to_string(bo) + ": " + seqStr(b, e, w, t)); return false; }
  }
  if (real != opt) { r.fail("C12:placement-not-optimal", "displacement " + std::to_string(real) + " optimum " + std::to_string(opt) + ": " + seqStr(b, e, w, t)); return false; }
  if (sumA != opt) { r.fail("C12:reported-costs-do-not-sum-to-optimum", "sum of reported costs " + std::to_string(sumA) + " optimum " + std::to_string(opt) + ": " + seqStr(b, e, w, t)); return false; }
  return true;
}

// A legalizer that has been used (pushes and bare cost queries), then emptied with clear(), must behave exactly like a new
// one on the next sequence: same predicted costs, same reported costs, same placement.
static bool checkReuse(int b, int e, const std::vector<int> &w, const std::vector<int> &t, Rng &rng, CaseResult &r) {
  int n = (int)w.size();
  RowLegalizer a(b, e), f(b, e);
  int k = (int)rng.range(0, n), used = 0;
  for (int i = 0; i < k; ++i) {  // an earlier life: some of the same cells, in reverse order
    int j = n - 1 - i;
    if (used + w[j] > e - b) break;
    used += w[j];
    a.push(w[j], t[j]);
  }
  int nq = (int)rng.range(0, 3), pushed1 = (int)a.getPlacement().size();
  for (int q = 0; q < nq; ++q) {
    // bare queries; the last one often asks for the very cell that the next life will insert when the row holds as many cells again
    int j = (q + 1 == nq && pushed1 < n && rng.chance(0.7)) ? pushed1 : (rng.chance(0.6) ? 0 : (int)rng.range(0, n - 1));
    if (used + w[j] <= e - b) (void)a.getCost(w[j], t[j]);
  }
  a.clear();
  bool sparseQueries = rng.chance(0.5);  // in the next life only some insertions are preceded by a prediction
  for (int i = 0; i < n; ++i) {
    if (sparseQueries && i != pushed1 && rng.chance(0.7)) {
      long long pa0 = a.push(w[i], t[i]), pf0 = f.push(w[i], t[i]);
      if (pa0 != pf0) { r.fail("C12:reused-legalizer-differs-from-a-new-one", "push after clear() = " + std::to_string(pa0) + ", on a new legalizer " + std::to_string(pf0) + " at cell " + std::to_string(i) + ": " + seqStr(b, e, w, t)); return false; }
      continue;
    }
    long long ca = a.getCost(w[i], t[i]), cf = f.getCost(w[i], t[i]);
    if (ca != cf) { r.fail("C12:reused-legalizer-differs-from-a-new-one", "getCost after clear() = " + std::to_string(ca) + ", on a new legalizer " + std::to_string(cf) + " at cell " + std::to_string(i) + " (earlier life: " + std::to_string(k) + " pushes, " + std::to_string(nq) + " bare queries): " + seqStr(b, e, w, t)); return false; }
    long long pa = a.push(w[i], t[i]), pf = f.push(w[i], t[i]);
    if (pa != pf) { r.fail("C12:reused-legalizer-differs-from-a-new-one", "push after clear() = " + std::to_string(pa) + ", on a new legalizer " + std::to_string(pf) + " at cell " + std::to_string(i) + ": " + seqStr(b, e, w, t)); return false; }
    if (ca != pa) { r.fail("C12:prediction-differs-from-push", "after clear(): getCost=" + std::to_string(ca) + " push=" + std::to_string(pa) + " at cell " + std::to_string(i) + ": " + seqStr(b, e, w, t)); return false; }
  }
  if (a.getPlacement() != f.getPlacement()) { r.fail("C12:reused-legalizer-differs-from-a-new-one", "placement after clear() differs: " + seqStr(b, e, w, t)); return false; }
  r.count("reuse_after_clear_checked");
  return true;
}

// exhaustive: case = (b, L, first width, first target index); enumerates every continuation up to 4 cells
static void exhaustiveCase(uint64_t idx, CaseResult &r, int maxL) {
  int tIdx = idx % 14; idx /= 14;
  int w0 = 1 + idx % 3; idx /= 3;
  int L = 1 + idx % 7; idx /= 7;
  int b = idx == 0 ? -1 : 1;
  int e = b + L;
  r.sig = "b" + std::to_string(b) + "L" + std::to_string(L) + "w" + std::to_string(w0) + "t" + std::to_string(tIdx);
  if (r.needSample()) r.sample = vf::J::obj().kv("segment_begin", b).kv("segment_end", e).kv("first_width", w0).kv("first_target", b - 3 + tIdx).kv("what", "all continuations up to 4 cells, widths 1..3, targets in [b-3,e+3]").str();
  if (r.dumpOnly || idx > 1 || L > maxL || tIdx > L + 6 || w0 > L) return;
  std::vector<int> w = {w0}, t = {b - 3 + tIdx};
  long long seqs = 0;
  std::function<bool(int)> rec = [&](int depth) -> bool {
    ++seqs;
    if (!checkSequence(b, e, w, t, true, r)) return false;
    if (depth == 4) return true;
    int used = 0;
    for (int x : w) used += x;
    for (int ww = 1; ww <= 3 && used + ww <= L; ++ww)
      for (int tt = b - 3; tt <= e + 3; ++tt) {
        w.push_back(ww);
        t.push_back(tt);
        bool ok = rec(depth + 1);
        w.pop_back();
        t.pop_back();
        if (!ok) return false;
      }
    return true;
  };
  rec(1);
  r.count("sequences", seqs);
  r.nontrivial = true;
}

static void randomCase(Rng &rng, CaseResult &r, bool big) {
  int b, e;
  std::vector<int> w, t;
  if (!big && rng.chance(0.04)) {
    // a long chain: 70..200 narrow cells at free, increasing targets (each keeps its own bound), then one or two wide cells whose
    // target lies far to the left or right, so that a single insertion (and its prediction) cascades through all of them
    int n = (int)rng.range(70, 200);
    int L = 4 * n + (int)rng.range(100, 400);
    b = (int)rng.range(-100, 100);
    e = b + L;
    int x = b + (int)rng.range(60, 120);
    for (int i = 0; i < n; ++i) { int ww = (int)rng.range(1, 2); w.push_back(ww); t.push_back(x); x += ww + (int)rng.range(0, 1); }
    int wide = (int)rng.range(1, 2);
    for (int k = 0; k < wide; ++k) { w.push_back((int)rng.range(40, 100)); t.push_back(rng.chance(0.7) ? b - (int)rng.range(0, 50) : e); }
  } else if (!big && rng.chance(0.25)) {
    // sparse long row, targets in increasing order and spread out: many separate clusters are alive at the same time
    int L = (int)rng.range(200, 3000);
    b = (int)rng.range(-100, 100);
    e = b + L;
    int n = (int)rng.range(8, 60);
    for (int i = 0; i < n; ++i) { w.push_back((int)rng.range(1, 3)); t.push_back((int)rng.range(b - 5, e + 5)); }
    std::sort(t.begin(), t.end());
    if (rng.chance(0.3)) for (int i = 0; i < n; ++i) if (rng.chance(0.15)) t[i] = (int)rng.range(b - 5, e + 5);  // a few out-of-order late comers
  } else if (!big) {
    int L = (int)rng.range(1, rng.chance(0.3) ? 2000 : 60);
    b = (int)rng.range(-100, 100);
    e = b + L;
    int n = (int)rng.range(1, 40), used = 0;
    int wmax = rng.chance(0.5) ? 3 : std::max(1, L / 4);
    for (int i = 0; i < n; ++i) {
      int ww = (int)rng.range(1, wmax);
      if (used + ww > L) break;
      used += ww;
      w.push_back(ww);
      int mode = (int)rng.range(0, 4);
      t.push_back(mode == 0 ? (int)rng.range(b - 3 * L - 5, e + 3 * L + 5) : mode == 1 ? b : mode == 2 ? e - ww : (int)rng.range(b - 2, e + 2));
    }
  } else {
    long long L = rng.range(1000, 1 << 23);
    b = (int)rng.range(-(1 << 22), (1 << 22) - L > -(1 << 22) ? (1 << 22) - L : -(1 << 22));
    e = (int)(b + L);
    int n = (int)rng.range(1, 40);
    long long used = 0;
    for (int i = 0; i < n; ++i) {
      long long ww = rng.range(1, std::max<long long>(1, L / (rng.chance(0.5) ? n : 3)));
      if (used + ww > L) break;
      used += ww;
      w.push_back((int)ww);
      t.push_back((int)(rng.chance(0.3) ? rng.range(-(1 << 22), 1 << 22) : rng.range(b, e)));
    }
  }
  if (w.empty()) { w.push_back(1); t.push_back(b); if (e - b < 1) e = b + 1; }
  unsigned long long mask = rng.next();
  if (r.needSample()) r.sample = vf::J::obj().kv("sequence", seqStr(b, e, w, t)).kv("query_mask", (long long)mask).str();
  if (r.dumpOnly) return;
  // check every prefix (the state after each insertion)
  for (size_t k = 1; k <= w.size(); ++k) {
    std::vector<int> ww(w.begin(), w.begin() + k), tt(t.begin(), t.begin() + k);
    if (k != w.size() && !rng.chance(0.3)) continue;
    if (!checkSequence(b, e, ww, tt, !big && (e - b) <= 300, r, mask)) break;
  }
  if (r.viol.empty() && rng.chance(0.5)) checkReuse(b, e, w, t, rng, r);
  long long used = 0;
  for (int x : w) used += x;
  r.count("cells", (long long)w.size());
  r.nontrivial = w.size() >= 2;
  int fill = (int)(10 * used / std::max(1, e - b));
  r.sig = std::string(big ? "B" : "S") + "n" + std::to_string(std::min<size_t>(w.size(), 40)) + "f" + std::to_string(fill);
}

int main(int argc, char **argv) {
  std::vector<vf::Part> parts;
  parts.push_back({"c12.exhaustive6", [](uint64_t idx, Rng &, CaseResult &r) { exhaustiveCase(idx, r, 6); }, 30});
  parts.push_back({"c12.exhaustive7", [](uint64_t idx, Rng &, CaseResult &r) { exhaustiveCase(idx, r, 7); }, 30});
  parts.push_back(vf::threaded("c12.threads", [](uint64_t, Rng &rng, CaseResult &r) { randomCase(rng, r, false); }, 4, 25, 120));
  parts.push_back({"c12.random", [](uint64_t, Rng &rng, CaseResult &r) { randomCase(rng, r, false); }, 10});
  parts.push_back({"c12.big", [](uint64_t, Rng &rng, CaseResult &r) { randomCase(rng, r, true); }, 10});
  return vf::runMain(argc, argv, parts);
}
