// C16: density grid capacity == free row area, hierarchy conservation, cells in exactly one bin through histories
#include <cmath>

#include "circ.hpp"
#include "place_global/density_legalizer.hpp"

using namespace coloquinte;
using namespace vfc;
using vf::CaseResult;
using vf::Rng;

static const char *OPN[] = {"refineX", "refineY", "coarsenX", "coarsenY", "improve", "run", "refine", "coarsenFully", "refineFully", "updateCellDemand"};

static void densityCase(Rng &rng, CaseResult &r) {
  GenOpts o = makeProfile(rng, rng.pick(std::vector<std::string>{"general", "obstruction", "manyfixed", "dense", "multirow", "blocked", "blocked"}));
  o.maxCells = (int)rng.pick(std::vector<int>{5, 15, 30, 60});
  o.maxRows = 12;
  if (rng.chance(0.15)) o.scale = (int)rng.pick(std::vector<int>{10, 100});
  else if (rng.chance(0.1)) { o.scale = (int)rng.pick(std::vector<int>{1000, 5000, 13000}); o.maxCells = std::min(o.maxCells, 30); }  // bin demands beyond 2^31
  Circuit c = genCircuit(rng, o);
  if (rng.chance(0.3)) {
    // some movable cells without area: they have no demand and must be in no bin
    int kept = 0;
    for (int i = 0; i < c.nbCells(); ++i) {
      if (c.cellIsFixed_[i]) continue;
      if (kept++ == 0) continue;  // at least one movable cell keeps its area
      if (rng.chance(0.2)) { if (rng.chance(0.5)) c.cellWidth_[i] = 0; else c.cellHeight_[i] = 0; }
    }
  }
  float sizeFactor = 1.0f + (float)rng.unif() * 6;
  float margin = rng.chance(0.4) ? 0.0f : (float)rng.unif() * 1.5f;
  DensityLegalizer::Parameters p;
  p.nbSteps = (int)rng.range(0, 2);
  p.costModel = (LegalizationModel)rng.range(0, 5);
  p.lineReoptSize = (int)rng.range(1, 5);
  p.lineReoptOverlap = (int)rng.range(1, std::max(1, p.lineReoptSize - 1));
  p.diagReoptSize = (int)rng.range(1, 4);
  p.diagReoptOverlap = (int)rng.range(1, std::max(1, p.diagReoptSize - 1));
  p.squareReoptSize = (int)rng.range(1, 3);
  p.squareReoptOverlap = (int)rng.range(1, std::max(1, p.squareReoptSize - 1));
  p.unidimensionalTransport = rng.chance(0.5) && p.costModel == LegalizationModel::L1;
  if (p.lineReoptSize < 2 && p.diagReoptSize < 2 && p.squareReoptSize < 2 && !p.unidimensionalTransport) p.lineReoptSize = 2;
  p.coarseningLimit = rng.chance(0.5) ? 100.0 : rng.unif() * 3;
  p.quadraticPenaltyFactor = rng.chance(0.5) ? 0.0 : 1e-3 * rng.unif();
  int nOps = rng.chance(0.1) ? (int)rng.range(13, 40) : (int)rng.range(1, 12);
  std::vector<int> ops;
  for (int k = 0; k < nOps; ++k) ops.push_back(rng.chance(0.08) ? 9 : (int)rng.range(0, 8));
  uint64_t targetSeed = rng.next();
  auto sample = [&]() {
    std::ostringstream ps;
    ps << "steps=" << p.nbSteps << " cost=" << (int)p.costModel << " line=" << p.lineReoptSize << "/" << p.lineReoptOverlap << " diag=" << p.diagReoptSize << "/" << p.diagReoptOverlap << " sq=" << p.squareReoptSize
       << "/" << p.squareReoptOverlap << " 1d=" << p.unidimensionalTransport << " coarsen=" << p.coarseningLimit << " quad=" << p.quadraticPenaltyFactor;
    std::string os;
    for (int op : ops) os += std::string(OPN[op]) + " ";
    return vf::J::obj().kv("binSizeFactor", (double)sizeFactor).kv("sideMargin", (double)margin).kv("params", ps.str()).kv("history", os).kraw("circuit", circuitJson(c)).str();
  };
  if (r.needSample()) r.sample = sample();
  if (r.dumpOnly) return;

  DensityLegalizer leg = DensityLegalizer::fromIspdCircuit(c, sizeFactor, margin);
  const DensityGrid &g = leg.grid();
  // ---- independent capacity oracle
  int minH = INT_MAX;
  for (int i = 0; i < c.nbCells(); ++i) if (c.cellHeight_[i] > 0) minH = std::min(minH, c.cellHeight_[i]);
  int m = (int)(margin * (float)minH);
  std::vector<Rectangle> regs;
  for (auto &row : c.rows_)
    for (auto s : freeSegments(c, row)) {
      if (s.hi - s.lo <= 2 * m) continue;
      regs.emplace_back(s.lo + m, s.hi - m, row.minY, row.maxY);
    }
  for (int i = 0; i < g.nbBinsX(); ++i) if (g.binLimitX(i) > g.binLimitX(i + 1)) r.fail("C16:bin-limits-not-monotone", "x");
  for (int j = 0; j < g.nbBinsY(); ++j) if (g.binLimitY(j) > g.binLimitY(j + 1)) r.fail("C16:bin-limits-not-monotone", "y");
  if (!regs.empty()) {
    int mnx = INT_MAX, mxx = INT_MIN, mny = INT_MAX, mxy = INT_MIN;
    for (auto &q : regs) { mnx = std::min(mnx, q.minX); mxx = std::max(mxx, q.maxX); mny = std::min(mny, q.minY); mxy = std::max(mxy, q.maxY); }
    if (g.binLimitX(0) != mnx || g.binLimitX(g.nbBinsX()) != mxx || g.binLimitY(0) != mny || g.binLimitY(g.nbBinsY()) != mxy)
      r.fail("C16:grid-does-not-tile-placement-area", "grid " + std::to_string(g.binLimitX(0)) + ".." + std::to_string(g.binLimitX(g.nbBinsX())) + " x " + std::to_string(g.binLimitY(0)) + ".." + std::to_string(g.binLimitY(g.nbBinsY())) +
                                                         " free area bbox " + std::to_string(mnx) + ".." + std::to_string(mxx) + " x " + std::to_string(mny) + ".." + std::to_string(mxy));
  }
  long long tot = 0, regArea = 0;
  for (auto &q : regs) regArea += (long long)(q.maxX - q.minX) * (q.maxY - q.minY);
  for (int i = 0; i < g.nbBinsX(); ++i)
    for (int j = 0; j < g.nbBinsY(); ++j) {
      Rectangle b = g.region(i, j);
      long long cap = 0;
      for (auto &q : regs) {
        long long w = std::min(q.maxX, b.maxX) - std::max(q.minX, b.minX), h = std::min(q.maxY, b.maxY) - std::max(q.minY, b.minY);
        if (w > 0 && h > 0) cap += w * h;
      }
      if (cap != g.binCapacity(i, j)) r.fail("C16:bin-capacity-differs-from-free-area", "bin " + std::to_string(i) + "," + std::to_string(j) + " capacity " + std::to_string(g.binCapacity(i, j)) + " free area " + std::to_string(cap));
      tot += cap;
    }
  if (tot != leg.totalCapacity()) r.fail("C16:total-capacity", std::to_string(leg.totalCapacity()) + " vs " + std::to_string(tot));
  if (tot != regArea) r.fail("C16:bins-lose-free-area", "sum over bins " + std::to_string(tot) + " free area after margins " + std::to_string(regArea));
  if (!r.viol.empty()) { r.sample = sample(); return; }
  if (regs.empty()) {
    // No free row space survives the side margin: the grid is the empty rectangle (0,0,0,0) with zero capacity. This
    // degenerate situation is the recorded C06 finding; there is no placement area to tile and passes divide by its
    // zero width, so histories are only driven on non-empty areas (the capacity oracle above has still been evaluated).
    r.count("empty_placement_area_history_skipped");
    r.sig = "empty-area";
    return;
  }

  leg.setParams(p);
  Rectangle a = leg.placementArea();
  Rng trng(targetSeed);
  int n = leg.nbCells();
  std::vector<float> tx(n), ty(n);
  for (int k = 0; k < n; ++k) {
    tx[k] = trng.chance(0.1) ? (float)(a.minX - 50 + trng.unif() * 200) : (float)(a.minX + trng.unif() * a.width());
    ty[k] = trng.chance(0.1) ? (float)(a.minY - 50) : (float)(a.minY + trng.unif() * a.height());
    if (trng.chance(0.1) && k > 0) { tx[k] = tx[k - 1]; ty[k] = ty[k - 1]; }
  }
  leg.updateCellTargetX(tx);
  leg.updateCellTargetY(ty);
  std::string hist;
  auto checkStateOn = [&](DensityLegalizer &leg, const std::string &where) {
    std::vector<int> cnt(n, 0);
    long long capSum = 0;
    for (int i = 0; i < leg.nbBinsX(); ++i)
      for (int j = 0; j < leg.nbBinsY(); ++j) {
        capSum += leg.binCapacity(i, j);
        for (int cc : leg.binCells(i, j)) {
          if (cc < 0 || cc >= n) { r.fail("C16:bin-holds-invalid-cell", where); return; }
          cnt[cc]++;
          if (leg.cellBinX(cc) != i || leg.cellBinY(cc) != j) r.fail("C16:cell-to-bin-map-inconsistent", where + " cell " + std::to_string(cc));
        }
      }
    if (capSum != tot) r.fail("C16:coarse-view-capacity-differs", where + ": " + std::to_string(capSum) + " vs " + std::to_string(tot));
    // every bin of the current (possibly coarser) view holds exactly the free area inside its limits
    for (int i = 0; i < leg.nbBinsX() && r.viol.empty(); ++i)
      for (int j = 0; j < leg.nbBinsY(); ++j) {
        long long cap = 0;
        for (auto &q : regs) {
          long long w = std::min(q.maxX, leg.binLimitX(i + 1)) - std::max(q.minX, leg.binLimitX(i)), h = std::min(q.maxY, leg.binLimitY(j + 1)) - std::max(q.minY, leg.binLimitY(j));
          if (w > 0 && h > 0) cap += w * h;
        }
        if (cap != leg.binCapacity(i, j)) { r.fail("C16:coarse-bin-capacity-differs-from-free-area", where + ": view bin " + std::to_string(i) + "," + std::to_string(j) + " capacity " + std::to_string(leg.binCapacity(i, j)) + " free area " + std::to_string(cap)); break; }
      }
    for (int i = 0; i < leg.nbBinsX(); ++i) if (leg.binLimitX(i) > leg.binLimitX(i + 1)) r.fail("C16:bin-limits-not-monotone", where);
    for (int j = 0; j < leg.nbBinsY(); ++j) if (leg.binLimitY(j) > leg.binLimitY(j + 1)) r.fail("C16:bin-limits-not-monotone", where);
    if (leg.binLimitX(0) != g.binLimitX(0) || leg.binLimitX(leg.nbBinsX()) != g.binLimitX(g.nbBinsX()) || leg.binLimitY(0) != g.binLimitY(0) || leg.binLimitY(leg.nbBinsY()) != g.binLimitY(g.nbBinsY()))
      r.fail("C16:coarse-view-does-not-tile-the-area", where);
    for (int cc = 0; cc < n; ++cc) {
      int want = leg.cellDemand(cc) > 0 ? 1 : 0;
      if (cnt[cc] != want) r.fail(want ? "C16:cell-not-in-exactly-one-bin" : "C16:zero-area-cell-in-a-bin", where + ": cell " + std::to_string(cc) + " appears in " + std::to_string(cnt[cc]) + " bins");
    }
    if (!r.viol.empty()) return;
    auto sx = leg.spreadCoordX(tx), sy = leg.spreadCoordY(ty);
    for (int cc = 0; cc < n; ++cc) {
      if (leg.cellDemand(cc) <= 0) continue;
      int bx = leg.cellBinX(cc), by = leg.cellBinY(cc);
      if (!std::isfinite(sx[cc]) || !std::isfinite(sy[cc])) { r.fail("C16:non-finite-coordinate", where); continue; }
      if (!(sx[cc] >= leg.binLimitX(bx) && sx[cc] <= leg.binLimitX(bx + 1) && sy[cc] >= leg.binLimitY(by) && sy[cc] <= leg.binLimitY(by + 1)))
        r.fail("C16:coordinate-outside-bin", where + ": cell " + std::to_string(cc) + " at (" + std::to_string(sx[cc]) + "," + std::to_string(sy[cc]) + ") bin x " + std::to_string(leg.binLimitX(bx)) + ".." + std::to_string(leg.binLimitX(bx + 1)) + " y " +
                                                 std::to_string(leg.binLimitY(by)) + ".." + std::to_string(leg.binLimitY(by + 1)));
    }
  };
  auto checkState = [&](const std::string &where) { checkStateOn(leg, where); };
  checkState("initial");
  int applied = 0;
  std::set<std::pair<int, int>> levels;
  for (int op : ops) {
    if (!r.viol.empty()) break;
    bool did = true;
    if (op == 0 && leg.levelX() > 0) leg.refineX();
    else if (op == 1 && leg.levelY() > 0) leg.refineY();
    else if (op == 2 && leg.levelX() + 1 < leg.nbLevelX()) leg.coarsenX();
    else if (op == 3 && leg.levelY() + 1 < leg.nbLevelY()) leg.coarsenY();
    else if (op == 4) leg.improve();
    else if (op == 5) leg.run();
    else if (op == 6 && (leg.levelX() > 0 || leg.levelY() > 0)) leg.refine();
    else if (op == 7) leg.coarsenFully();
    else if (op == 8) leg.refineFully();
    else if (op == 9) {
      // the stage the global placer runs when a callback resized cells: new sizes for cells of non-zero area are taken over;
      // a change that would give a placed cell no demand (made fixed, or a side of zero) is refused and changes nothing
      Circuit c2 = c;
      int kind = (int)trng.range(0, 3);
      std::vector<int> cand, zeroCand;
      for (int cc = 0; cc < n; ++cc) { if (leg.cellDemand(cc) > 0) cand.push_back(cc); else if (!c.cellIsFixed_[cc]) zeroCand.push_back(cc); }
      if (kind == 3 && zeroCand.empty()) kind = (int)trng.range(0, 2);
      if (cand.empty() && kind != 3) kind = 0;
      if (kind == 3) {
        // a movable cell without area gets one: it is in no bin and none of the passes would ever put it into one, so the update
        // must be refused like the opposite change
        int cc = zeroCand[trng.range(0, (long long)zeroCand.size() - 1)];
        c2.cellWidth_[cc] = std::max(1, c2.cellWidth_[cc]) * (int)trng.range(1, 3);
        c2.cellHeight_[cc] = std::max(1, c2.cellHeight_[cc]);
        bool threw = false;
        try { leg.updateCellDemand(c2); } catch (const std::exception &) { threw = true; }
        r.count(threw ? "demand_updates_from_zero_refused" : "demand_updates_from_zero_accepted");
      } else
      if (kind == 0) {
        for (int cc : cand) if (trng.chance(0.4)) {
          // cell demands are 32-bit in the density legalizer: stay below 2^30 per cell (documented assumption of this check)
          long long f = 1 + trng.range(0, 2);
          if ((long long)c2.cellWidth_[cc] * c2.cellHeight_[cc] * f < (1LL << 30)) c2.cellWidth_[cc] = std::max(1, (int)(c2.cellWidth_[cc] * f));
        }
        try { leg.updateCellDemand(c2); c = c2; r.count("demand_updates_applied"); } catch (const std::exception &e) { r.fail("C16:updateCellDemand-threw-on-a-resize", e.what()); }
      } else {
        int cc = cand[trng.range(0, (long long)cand.size() - 1)];
        if (kind == 1) c2.cellIsFixed_[cc] = true; else if (trng.chance(0.5)) c2.cellWidth_[cc] = 0; else c2.cellHeight_[cc] = 0;
        std::vector<int> before;
        for (int k2 = 0; k2 < n; ++k2) before.push_back(leg.cellDemand(k2));
        bool threw = false;
        try { leg.updateCellDemand(c2); } catch (const std::exception &) { threw = true; }
        r.count(threw ? "demand_updates_refused" : "demand_updates_to_zero_accepted");
        if (threw) for (int k2 = 0; k2 < n; ++k2) if (leg.cellDemand(k2) != before[k2]) { r.fail("C16:refused-demand-update-changed-demands", "cell " + std::to_string(k2)); break; }
      }
    }
    else did = false;
    if (!did) continue;
    ++applied;
    hist += std::string(OPN[op]) + " ";
    levels.insert({leg.levelX(), leg.levelY()});
    checkState("after " + hist);
  }
  if (r.viol.empty() && applied > 0) {
    // a second legalizer built from the state the history left behind (the public converting constructor): it takes over the view
    // and the allocation as they are, and its own passes keep the invariants
    DensityLegalizer succ(static_cast<const HierarchicalDensityPlacement &>(leg), p);
    if (succ.levelX() != leg.levelX() || succ.levelY() != leg.levelY() || succ.nbBinsX() != leg.nbBinsX() || succ.nbBinsY() != leg.nbBinsY())
      r.fail("C16:successor-view-differs", "levels " + std::to_string(succ.levelX()) + "," + std::to_string(succ.levelY()) + " vs " + std::to_string(leg.levelX()) + "," + std::to_string(leg.levelY()));
    for (int cc = 0; cc < n && r.viol.empty(); ++cc)
      if (succ.cellBinX(cc) != leg.cellBinX(cc) || succ.cellBinY(cc) != leg.cellBinY(cc)) r.fail("C16:successor-allocation-differs", "cell " + std::to_string(cc));
    succ.updateCellTargetX(tx);
    succ.updateCellTargetY(ty);
    if (r.viol.empty()) checkStateOn(succ, "successor of " + hist);
    int k = (int)trng.range(0, 3);
    if (r.viol.empty()) {
      if (k == 0) succ.run(); else if (k == 1) succ.improve(); else if (k == 2) succ.coarsenFully(); else succ.refineFully();
      checkStateOn(succ, "successor of " + hist + "then " + (k == 0 ? "run" : k == 1 ? "improve" : k == 2 ? "coarsenFully" : "refineFully"));
    }
    r.count("successor_legalizers_checked");
    if (leg.levelX() + 1 < leg.nbLevelX() || leg.levelY() + 1 < leg.nbLevelY()) r.count("successor_legalizers_built_from_a_refined_view");
  }
  r.count("history_steps", applied);
  r.count("bins", (long long)g.nbBinsX() * g.nbBinsY());
  r.nontrivial = applied > 0 && n > 0;
  bool obstructed = false;
  long long rowArea = 0;
  for (auto &row : c.rows_) rowArea += (long long)row.width() * row.height();
  if (regArea != rowArea) obstructed = true;
  r.sig = "b" + std::to_string(std::min(g.nbBinsX(), 9)) + "x" + std::to_string(std::min(g.nbBinsY(), 9)) + (obstructed ? "o" : "-") + (m > 0 ? "m" : "-") + "c" + std::to_string((int)p.costModel) + (p.unidimensionalTransport ? "t" : "-") + "h" +
          std::to_string(std::min(applied, 12)) + "l" + std::to_string(levels.size());
  if (!r.viol.empty()) r.sample = sample();
}

int main(int argc, char **argv) {
  std::vector<vf::Part> parts;
  parts.push_back({"c16.history", [](uint64_t, Rng &rng, CaseResult &r) { densityCase(rng, r); }, 60});
  return vf::runMain(argc, argv, parts);
}
