// C15: Row::freespace / Circuit::computeRows against a per-column oracle (small) and an interval oracle (large)
#include "circ.hpp"

using namespace coloquinte;
using namespace vfc;
using vf::CaseResult;
using vf::Rng;

static bool blocks(const Rectangle &o, const Row &r, long long x) {
  // positive-area obstacle overlapping column [x,x+1) of the row
  return o.minX < o.maxX && o.minY < o.maxY && o.minX < x + 1 && x < o.maxX && o.minY < r.maxY && r.minY < o.maxY;
}
static std::vector<std::pair<int, int>> columnOracle(const Row &r, const std::vector<Rectangle> &obs) {
  std::vector<std::pair<int, int>> ret;
  int start = INT_MIN;
  for (int x = r.minX; x <= r.maxX; ++x) {
    bool fr = x < r.maxX;
    if (fr) for (auto &o : obs) if (blocks(o, r, x)) { fr = false; break; }
    if (fr && start == INT_MIN) start = x;
    if (!fr && start != INT_MIN) { ret.push_back({start, x}); start = INT_MIN; }
  }
  return ret;
}
static std::vector<std::pair<int, int>> intervalOracle(const Row &r, const std::vector<Rectangle> &obs) {
  std::vector<std::pair<int, int>> blocked, ret;
  for (auto &o : obs)
    if (o.minX < o.maxX && o.minY < o.maxY && o.minX < r.maxX && r.minX < o.maxX && o.minY < r.maxY && r.minY < o.maxY)
      blocked.push_back({std::max(o.minX, r.minX), std::min(o.maxX, r.maxX)});
  std::sort(blocked.begin(), blocked.end());
  int cur = r.minX;
  for (auto &b : blocked) {
    if (b.first > cur) ret.push_back({cur, b.first});
    cur = std::max(cur, b.second);
  }
  if (cur < r.maxX) ret.push_back({cur, r.maxX});
  return ret;
}
// merge touching segments: the property asks for disjoint segments covering the free columns, not for maximal ones
static std::vector<std::pair<int, int>> normalise(std::vector<std::pair<int, int>> v, bool &overlap) {
  std::sort(v.begin(), v.end());
  std::vector<std::pair<int, int>> out;
  overlap = false;
  for (auto &s : v) {
    if (!out.empty() && s.first < out.back().second) overlap = true;
    if (!out.empty() && s.first <= out.back().second) out.back().second = std::max(out.back().second, s.second);
    else out.push_back(s);
  }
  return out;
}
static std::string describe(const Row &row, const std::vector<Rectangle> &obs) {
  std::ostringstream ss;
  ss << "row [" << row.minX << "," << row.maxX << ")x[" << row.minY << "," << row.maxY << ") " << oname(row.orientation) << " obstacles:";
  for (auto &o : obs) ss << " [" << o.minX << "," << o.maxX << ")x[" << o.minY << "," << o.maxY << ")";
  return ss.str();
}
static bool checkFreespace(const Row &row, const std::vector<Rectangle> &obs, const std::vector<Row> &got, bool columns, CaseResult &r, const char *api) {
  std::vector<std::pair<int, int>> segs;
  for (auto &f : got) {
    if (f.minY != row.minY || f.maxY != row.maxY) { r.fail(std::string("C15:segment-not-full-height:") + api, describe(row, obs)); return false; }
    if (f.orientation != row.orientation) { r.fail(std::string("C15:segment-orientation:") + api, describe(row, obs)); return false; }
    if (f.minX >= f.maxX) { r.fail(std::string("C15:empty-segment:") + api, describe(row, obs)); return false; }
    if (f.minX < row.minX || f.maxX > row.maxX) { r.fail(std::string("C15:segment-outside-row:") + api, describe(row, obs)); return false; }
    segs.push_back({f.minX, f.maxX});
  }
  bool overlap;
  auto norm = normalise(segs, overlap);
  if (overlap) { r.fail(std::string("C15:segments-overlap:") + api, describe(row, obs)); return false; }
  auto exp = columns ? columnOracle(row, obs) : intervalOracle(row, obs);
  if (norm != exp) {
    std::ostringstream ss;
    ss << describe(row, obs) << " got:";
    for (auto &g : norm) ss << " " << g.first << ".." << g.second;
    ss << " expected:";
    for (auto &g : exp) ss << " " << g.first << ".." << g.second;
    r.fail(std::string("C15:free-space-differs:") + api, ss.str());
    return false;
  }
  return true;
}

static void randomCase(Rng &rng, CaseResult &r) {
  bool big = rng.chance(0.3);
  long long sc = big ? rng.pick(std::vector<int>{100, 10000, 400000}) : 1;
  int x0 = (int)(rng.range(-3, 3) * sc), w = (int)(rng.range(1, 10) * sc), y0 = (int)(rng.range(-2, 2) * sc), h = (int)(rng.range(1, 3) * sc);
  Row row(x0, x0 + w, y0, y0 + h, ALL8[rng.range(0, 7)]);
  int no = (int)rng.range(0, 8);
  std::vector<Rectangle> obs;
  for (int k = 0; k < no; ++k) {
    int a = (int)(rng.range(-5, 12) * sc + (big ? rng.range(-3, 3) : 0)), b = a + (int)(rng.range(0, 6) * sc), c = (int)(rng.range(-4, 5) * sc + (big ? rng.range(-3, 3) : 0)), d = c + (int)(rng.range(0, 4) * sc);
    if (rng.chance(0.1)) { a = x0 - (int)sc; b = x0 + w + (int)sc; }  // spans the whole row
    if (rng.chance(0.1)) { a = x0; }                                   // touches the row edge
    if (rng.chance(0.1)) { b = x0 + w; }
    obs.emplace_back(a, std::max(a, b), c, std::max(c, d));
  }
  if (r.needSample()) r.sample = vf::J::obj().kv("case", describe(row, obs)).str();
  if (r.dumpOnly) return;
  std::vector<Row> fs = row.freespace(obs);
  checkFreespace(row, obs, fs, !big, r, "freespace");
  int covering = 0;
  for (auto &o : obs) if (o.minX < o.maxX && o.minY < o.maxY && o.minX < row.maxX && row.minX < o.maxX && o.minY < row.maxY && row.minY < o.maxY) ++covering;
  r.nontrivial = covering > 0;
  r.sig = std::string(big ? "B" : "s") + "w" + std::to_string(w / sc) + "h" + std::to_string(h / sc) + "n" + std::to_string(no) + "c" + std::to_string(covering) + "f" + std::to_string(fs.size());
}

static void computeRowsCase(Rng &rng, CaseResult &r) {
  GenOpts o = makeProfile(rng, rng.chance(0.5) ? "obstruction" : "manyfixed");
  o.maxFixed = 8;
  o.obstructionProb = 0.5;
  if (rng.chance(0.2)) o.scale = (int)rng.pick(std::vector<int>{100, 10000});
  Circuit c = genCircuit(rng, o);
  if (rng.chance(0.4)) {
    // arbitrary pairwise disjoint rows: several x-segments per band that start at the same y but have independent
    // heights and orientations, listed in random order (computeRows makes no assumption on the rows)
    Rectangle a0 = c.computePlacementArea();
    int unit = std::max(1, c.rows_[0].height());
    std::vector<Row> rows;
    int y = a0.minY;
    int bands = (int)rng.range(1, 4);
    for (int b = 0; b < bands; ++b) {
      int x = a0.minX, maxH = unit;
      int segs = (int)rng.range(1, 4);
      for (int k = 0; k < segs; ++k) {
        int w = std::max(1, (int)rng.range(1, std::max(2, a0.width() / 3)));
        int h = unit * (int)rng.range(1, 4);
        if (rng.chance(0.3)) h = std::max(1, h - (int)rng.range(0, unit - 1));
        x += (int)rng.range(0, 2) * o.scale;
        // segments of a band need not start at the same y either: staggered rows whose y ranges overlap partially
        int yOff = rng.chance(0.4) ? (int)rng.range(0, 3 * unit) : 0;
        rows.emplace_back(x, x + w, y + yOff, y + yOff + h, ALL8[rng.range(0, 7)]);
        x += w;
        maxH = std::max(maxH, yOff + h);
      }
      y += maxH + (int)rng.range(0, 1) * unit;
    }
    for (int i = (int)rows.size() - 1; i > 0; --i) std::swap(rows[i], rows[rng.range(0, i)]);
    c.setRows(rows);
  }
  // movable cells flagged as obstruction or not must be ignored either way; fixed cells with any orientation
  for (int i = 0; i < c.nbCells(); ++i) if (!c.cellIsFixed_[i]) c.cellIsObstruction_[i] = rng.chance(0.5);
  std::vector<Rectangle> extra;
  int ne = (int)rng.range(0, 3);
  Rectangle area = c.computePlacementArea();
  for (int k = 0; k < ne; ++k) {
    int a = (int)rng.range(area.minX - 3, area.maxX), cY = (int)rng.range(area.minY - 3, area.maxY);
    extra.emplace_back(a, a + (int)rng.range(0, std::max(1, area.width() / 3)), cY, cY + (int)rng.range(0, std::max(1, area.height())));
  }
  if (r.needSample()) {
    vf::J j = vf::J::obj();
    vf::J ex = vf::J::arr();
    for (auto &e : extra) ex.raw(vf::jarr(std::vector<int>{e.minX, e.maxX, e.minY, e.maxY}));
    j.kraw("extra_obstacles", ex.str()).kraw("circuit", circuitJson(c));
    r.sample = j.str();
  }
  if (r.dumpOnly) return;
  if (rng.chance(0.4)) {
    // the object has a past: rows were computed once, then sizes / positions / orientations / obstruction flags of the cells were
    // changed through the public setters (no setCellIsFixed afterwards). The second computation must reflect the current state.
    (void)c.computeRows(extra);
    std::vector<int> w = c.cellWidth_, h = c.cellHeight_, x = c.cellX_, y = c.cellY_;
    std::vector<CellOrientation> oo = c.cellOrientation_;
    std::vector<bool> ob = c.cellIsObstruction_;
    int unit = (int)o.scale;
    for (int i = 0; i < c.nbCells(); ++i) {
      if (!c.cellIsFixed_[i] || !rng.chance(0.6)) continue;
      int what = (int)rng.range(0, 4);
      if (what == 0) w[i] = (w[i] == 0 || rng.chance(0.5)) ? (int)rng.range(1, 6) * unit : 0;
      else if (what == 1) h[i] = (h[i] == 0 || rng.chance(0.5)) ? (int)rng.range(1, 3) * std::max(1, c.rows_[0].height()) : 0;
      else if (what == 2) { x[i] += (int)rng.range(-5, 5) * unit; y[i] += (int)rng.range(-2, 2) * unit; }
      else if (what == 3) oo[i] = ALL8[rng.range(0, 7)];
      else ob[i] = !ob[i];
    }
    c.setCellWidth(w); c.setCellHeight(h); c.setCellX(x); c.setCellY(y); c.setCellOrientation(oo); c.setCellIsObstruction(ob);
    r.count("second_computation_after_changes");
  }
  if (rng.chance(0.2)) {
    // the object that is judged held another design before: rows were computed on it, then this circuit was assigned to it
    GenOpts o2 = makeProfile(rng, "manyfixed");
    Circuit holder = genCircuit(rng, o2);
    (void)holder.computeRows();
    holder = c;
    c = holder;
    std::vector<Row> viaHolder = holder.computeRows(extra), direct = c.computeRows(extra);
    bool same = viaHolder.size() == direct.size();
    for (size_t k = 0; same && k < direct.size(); ++k) same = viaHolder[k].minX == direct[k].minX && viaHolder[k].maxX == direct[k].maxX && viaHolder[k].minY == direct[k].minY && viaHolder[k].maxY == direct[k].maxY;
    if (!same) r.fail("C15:free-space-differs:computeRows", "an object that held another design before this one was assigned to it computes other rows than a copy of the design");
    r.count("computed_on_a_reassigned_object");
  }
  std::vector<Row> got = c.computeRows(extra);
  // oracle obstacles: fixed AND obstruction cells (placed rectangle from own transform) + extra
  std::vector<Rectangle> obs = extra;
  int nObs = 0, flagsSeen = 0;
  for (int i = 0; i < c.nbCells(); ++i) {
    flagsSeen |= 1 << ((c.cellIsFixed_[i] ? 2 : 0) + (c.cellIsObstruction_[i] ? 1 : 0));
    if (c.cellIsFixed_[i] && c.cellIsObstruction_[i]) { obs.emplace_back(c.cellX_[i], c.cellX_[i] + pW(c, i), c.cellY_[i], c.cellY_[i] + pH(c, i)); ++nObs; }
  }
  // group the returned rows by source row: every returned row lies inside exactly one original row (rows are disjoint)
  std::vector<std::vector<Row>> per(c.rows_.size());
  for (auto &g : got) {
    int owner = -1;
    for (size_t k = 0; k < c.rows_.size(); ++k) {
      const Row &row = c.rows_[k];
      if (g.minY == row.minY && g.maxY == row.maxY && g.minX >= row.minX && g.maxX <= row.maxX) owner = (int)k;
    }
    if (owner < 0) { r.fail("C15:segment-outside-row:computeRows", "a returned segment is not inside any row"); break; }
    per[owner].push_back(g);
  }
  bool small = o.scale == 1;
  for (size_t k = 0; k < c.rows_.size() && r.viol.empty(); ++k) checkFreespace(c.rows_[k], obs, per[k], small, r, "computeRows");
  r.nontrivial = nObs > 0;
  int bits = 0;
  for (int b = 0; b < 4; ++b) if (flagsSeen >> b & 1) ++bits;
  r.sig = "R" + std::to_string(c.nbRows()) + "o" + std::to_string(nObs) + "e" + std::to_string(ne) + "f" + std::to_string(bits) + "g" + std::to_string(std::min<size_t>(got.size(), 20));
}

// exhaustive small grid: rows of width 1..5 / height 1..2 placed at (1,1) in a 7x5 grid, up to 2 obstacles incl. zero-size
static std::vector<Rectangle> allRects() {
  std::vector<Rectangle> v;
  for (int a = 0; a <= 7; ++a) for (int b = a; b <= 7; ++b) for (int c = 0; c <= 5; ++c) for (int d = c; d <= 5; ++d) v.emplace_back(a, b, c, d);
  return v;  // 36 * 21 = 756
}
static void exhaustiveCase(uint64_t idx, CaseResult &r) {
  static std::vector<Rectangle> rects = allRects();
  int nr = (int)rects.size();
  int first = idx % (nr + 1);
  int rowIdx = (int)(idx / (nr + 1));
  if (rowIdx >= 10) { r.sig = "none"; return; }
  int w = 1 + rowIdx % 5, h = 1 + rowIdx / 5;
  Row row(1, 1 + w, 1, 1 + h, rowIdx % 2 ? CellOrientation::FS : CellOrientation::N);
  r.sig = "w" + std::to_string(w) + "h" + std::to_string(h) + "o" + std::to_string(first);
  if (r.needSample()) r.sample = vf::J::obj().kv("row_width", w).kv("row_height", h).kv("first_obstacle_index", first).kv("what", "second obstacle ranges over all rectangles of the 7x5 grid and none").str();
  if (r.dumpOnly) return;
  long long n = 0;
  if (first == nr) {  // no obstacle at all
    std::vector<Rectangle> obs;
    checkFreespace(row, obs, row.freespace(obs), true, r, "freespace");
    ++n;
  } else {
    for (int second = first; second <= nr && r.viol.empty(); ++second) {
      std::vector<Rectangle> obs = {rects[first]};
      if (second < nr) obs.push_back(rects[second]);
      checkFreespace(row, obs, row.freespace(obs), true, r, "freespace");
      ++n;
    }
  }
  r.count("configurations", n);
  r.nontrivial = true;
}

int main(int argc, char **argv) {
  std::vector<vf::Part> parts;
  parts.push_back({"c15.random", [](uint64_t, Rng &rng, CaseResult &r) { randomCase(rng, r); }, 10});
  parts.push_back({"c15.computeRows", [](uint64_t, Rng &rng, CaseResult &r) { computeRowsCase(rng, r); }, 10});
  parts.push_back({"c15.exhaustive", [](uint64_t idx, Rng &, CaseResult &r) { exhaustiveCase(idx, r); }, 20});
  return vf::runMain(argc, argv, parts);
}
