// C17: real-valued net weights in the continuous solver: scaling metamorphic relations + dense least-squares reference
#include <cmath>

#include "circ.hpp"
#include "place_global/net_model.hpp"

using namespace coloquinte;
using namespace vfc;
using vf::CaseResult;
using vf::Rng;

struct NetSpec {
  std::vector<int> c;
  std::vector<float> o;
  float w;
  bool hasFix;
  float mn, mx;
};
struct ModelSpec {
  int nc;
  std::vector<NetSpec> nets;
  double span = 1;
  bool exactAssembly = false;  // weights, offsets and fixed positions are small dyadic numbers: sums and products are exact in float
};

static ModelSpec genModel(Rng &rng, bool twoPinOnly, bool allowPads = false) {
  ModelSpec m;
  m.nc = (int)rng.range(1, 12);
  // magnitude ladder for coordinates and offsets (tolerances are relative to the span)
  float mag = rng.chance(0.7) ? 1.0f : (float)rng.pick(std::vector<double>{16.0, 1024.0, 16384.0});
  if (allowPads && rng.chance(0.004)) {
    // many anchored cells in one component (a count around a multiple of 256), each tied to its own fixed pin and to the head
    // of a chain that carries heavy leaves: hundreds of anchors, yet a tail that is only weakly held
    int pads = (int)rng.pick(std::vector<int>{255, 256, 257}), chain = (int)rng.range(40, 80);
    bool leaves = rng.chance(0.7);
    m.nc = pads + chain + (leaves ? chain : 0);
    auto two = [&](int a, int b, float wt) { NetSpec t; t.hasFix = false; t.c = {a, b}; t.o = {0.0f, 0.0f}; t.w = wt; t.mn = t.mx = 0; m.nets.push_back(t); };
    for (int p = 0; p < pads; ++p) {
      NetSpec t; t.hasFix = true; t.c = {p}; t.o = {0.0f}; t.w = 1.0f; t.mn = t.mx = (float)rng.range(900, 1100); m.span = std::max(m.span, (double)t.mn); m.nets.push_back(t);
      two(p, pads, 1.0f);
    }
    for (int k = 0; k + 1 < chain; ++k) two(pads + k, pads + k + 1, 1.0f);
    if (leaves) for (int k = 0; k < chain; ++k) two(pads + k, pads + chain + k, 32.0f);
    m.exactAssembly = true;
    return m;
  }
  if (rng.chance(0.04)) {
    // a long chain of two-pin nets hanging from one or two fixed pins, the pins of each net in either order: a weakly
    // anchored component whose optimum is known to the dense reference but which is sensitive to any spurious tie
    m.nc = (int)rng.range(30, 160);
    for (int k = 0; k + 1 < m.nc; ++k) {
      NetSpec t;
      t.hasFix = false;
      bool flip = rng.chance(0.5);
      t.c = {flip ? k + 1 : k, flip ? k : k + 1};
      t.o = {(float)rng.range(-2, 2) * mag, (float)rng.range(-2, 2) * mag};
      t.w = (float)rng.pick(std::vector<double>{0.5, 1, 1.5, 2});
      t.mn = t.mx = 0;
      m.span = std::max(m.span, (double)std::max(std::fabs(t.o[0]), std::fabs(t.o[1])));
      m.nets.push_back(t);
    }
    int anchors = (int)rng.range(1, 2);
    for (int a = 0; a < anchors; ++a) {
      NetSpec t;
      t.hasFix = true;
      t.c = {a == 0 ? 0 : m.nc - 1};
      t.o = {0.0f};
      t.w = 1.0f;
      t.mn = t.mx = (float)rng.range(-200, 200) * mag;
      m.span = std::max(m.span, (double)std::fabs(t.mn));
      m.nets.push_back(t);
    }
    for (int i = (int)m.nets.size() - 1; i > 0; --i) if (rng.chance(0.5)) std::swap(m.nets[i], m.nets[rng.range(0, i)]);
    m.exactAssembly = true;
    return m;
  }
  int nn = (int)rng.range(1, 15);
  for (int k = 0; k < nn; ++k) {
    NetSpec t;
    t.hasFix = rng.chance(0.6);
    int d = twoPinOnly ? (t.hasFix ? 1 : 2) : (int)rng.range(1, 5);
    for (int j = 0; j < d; ++j) {
      t.c.push_back((int)rng.range(0, m.nc - 1));
      t.o.push_back((float)rng.range(-10, 10) * mag);
      // pin offsets are data of the same kind as the fixed positions: the rounding of 9216 +- x in single precision is
      // relative to 9216 even when every fixed pin sits at 0
      m.span = std::max(m.span, (double)std::fabs(t.o.back()));
    }
    t.w = (float)rng.pick(std::vector<double>{0.25, 0.5, 1, 1.5, 2, 2.5, 3, 0.125, 7});
    t.mn = (float)rng.range(-200, 200) * mag;
    t.mx = t.mn + ((twoPinOnly || rng.chance(0.3)) ? 0 : (float)rng.range(0, 300) * mag);
    // the circuit-level topologies clamp the interval of the fixed pins to the placement area one side at a time: pads that
    // all lie beyond one edge give an interval whose ends are exchanged (both ends are still fixed pins of the net)
    if (!twoPinOnly && rng.chance(0.1)) t.mx = t.mn - (float)rng.range(1, 300) * mag;
    m.span = std::max(m.span, (double)std::max(std::fabs(t.mn), std::fabs(t.mx)));
    m.nets.push_back(t);
  }
  return m;
}
static NetModel build(const ModelSpec &m, float k) {
  NetModel nm(m.nc);
  for (auto &t : m.nets) {
    if (t.hasFix) nm.addNet(t.c, t.o, t.mn, t.mx, t.w * k);
    else nm.addNet(t.c, t.o, t.w * k);
  }
  return nm;
}
static std::string specJson(const ModelSpec &m) {
  vf::J j = vf::J::obj();
  j.kv("cells", m.nc);
  vf::J nets = vf::J::arr();
  for (auto &t : m.nets) {
    vf::J n = vf::J::obj();
    n.kraw("cells", vf::jarr(t.c)).kraw("offsets", vf::jarrd(t.o)).kv("weight", (double)t.w);
    if (t.hasFix) n.kv("fixed_min", (double)t.mn).kv("fixed_max", (double)t.mx);
    nets.raw(n.str());
  }
  j.kraw("nets", nets.str());
  return j.str();
}
static bool bitEqual(const std::vector<float> &a, const std::vector<float> &b) {
  if (a.size() != b.size()) return false;
  for (size_t i = 0; i < a.size(); ++i) {
    if (std::isnan(a[i]) && std::isnan(b[i])) continue;
    // scaling by a power of two is exact only while nothing underflows: entries that are zero up to 1e-25 (variables that
    // conjugate gradient has not reached yet, products of tiny numbers in the denormal range) are compared as zero
    if (std::fabs(a[i]) < 1e-25f && std::fabs(b[i]) < 1e-25f) continue;
    if (memcmp(&a[i], &b[i], sizeof(float)) != 0) return false;
  }
  return true;
}

// dense Gaussian elimination with partial pivoting in double
static bool gauss(std::vector<std::vector<double>> A, std::vector<double> b, std::vector<double> &x) {
  int n = (int)b.size();
  for (int i = 0; i < n; ++i) {
    int p = i;
    for (int r = i + 1; r < n; ++r) if (std::fabs(A[r][i]) > std::fabs(A[p][i])) p = r;
    if (std::fabs(A[p][i]) < 1e-9) return false;
    std::swap(A[p], A[i]);
    std::swap(b[p], b[i]);
    for (int r = i + 1; r < n; ++r) {
      double f = A[r][i] / A[i][i];
      if (f == 0) continue;
      for (int c = i; c < n; ++c) A[r][c] -= f * A[i][c];
      b[r] -= f * b[i];
    }
  }
  x.assign(n, 0);
  for (int i = n - 1; i >= 0; --i) {
    double s = b[i];
    for (int c = i + 1; c < n; ++c) s -= A[i][c] * x[c];
    x[i] = s / A[i][i];
  }
  return true;
}

struct Dense {
  int N;
  std::vector<std::vector<double>> A;
  std::vector<double> b;
  explicit Dense(int n) : N(n), A(n, std::vector<double>(n, 0)), b(n, 0) {}
  int addNode() {
    for (auto &row : A) row.push_back(0);
    ++N;
    A.emplace_back(N, 0.0);
    b.push_back(0);
    return N - 1;
  }
  // quadratic term w * ((x1 + o1) - (x2 + o2))^2 ; cell -1 is a fixed pin at position o
  void addPin(int c1, int c2, double o1, double o2, double w) {
    if (c1 == c2) return;
    if (c1 == -1) { A[c2][c2] += w; b[c2] += w * (o1 - o2); return; }
    if (c2 == -1) { A[c1][c1] += w; b[c1] += w * (o2 - o1); return; }
    A[c1][c1] += w; A[c2][c2] += w; A[c1][c2] -= w; A[c2][c1] -= w;
    b[c1] += w * (o2 - o1);
    b[c2] += w * (o1 - o2);
  }
  // positive definite iff every component of the connectivity graph reaches a fixed term
  bool positiveDefinite() const {
    for (int i = 0; i < N; ++i) if (A[i][i] == 0) return false;
    // detect floating components: sum of a row == 0 for all nodes of a component
    std::vector<int> comp(N, -1);
    int nc = 0;
    for (int s = 0; s < N; ++s) {
      if (comp[s] != -1) continue;
      std::vector<int> st = {s};
      comp[s] = nc;
      bool anchored = false;
      while (!st.empty()) {
        int u = st.back();
        st.pop_back();
        double rowSum = 0;
        for (int v = 0; v < N; ++v) {
          rowSum += A[u][v];
          if (v != u && A[u][v] != 0 && comp[v] == -1) { comp[v] = nc; st.push_back(v); }
        }
        if (rowSum > 1e-12) anchored = true;
      }
      if (!anchored) return false;
      ++nc;
    }
    return true;
  }
};


// 1-norm condition number via explicit inverse (N <= ~40)
// inverse by Gauss-Jordan elimination with partial pivoting (double precision); false when singular
static bool invert(const std::vector<std::vector<double>> &A, std::vector<std::vector<double>> &inv) {
  int n = (int)A.size();
  std::vector<std::vector<double>> M = A;
  inv.assign(n, std::vector<double>(n, 0));
  for (int i = 0; i < n; ++i) inv[i][i] = 1;
  for (int c = 0; c < n; ++c) {
    int p = c;
    for (int i = c + 1; i < n; ++i) if (std::fabs(M[i][c]) > std::fabs(M[p][c])) p = i;
    if (std::fabs(M[p][c]) < 1e-300) return false;
    std::swap(M[p], M[c]);
    std::swap(inv[p], inv[c]);
    double d = 1.0 / M[c][c];
    for (int j = 0; j < n; ++j) { M[c][j] *= d; inv[c][j] *= d; }
    for (int i = 0; i < n; ++i) {
      if (i == c || M[i][c] == 0) continue;
      double f = M[i][c];
      for (int j = 0; j < n; ++j) { M[i][j] -= f * M[c][j]; inv[i][j] -= f * inv[c][j]; }
    }
  }
  return true;
}
static double cond1(const Dense &D, std::vector<std::vector<double>> *invOut = nullptr) {
  int n = D.N;
  double na = 0, ni = 0;
  for (int j = 0; j < n; ++j) { double s = 0; for (int i = 0; i < n; ++i) s += std::fabs(D.A[i][j]); na = std::max(na, s); }
  std::vector<std::vector<double>> inv;
  if (!invert(D.A, inv)) return 1e300;
  for (int j = 0; j < n; ++j) { double s = 0; for (int i = 0; i < n; ++i) s += std::fabs(inv[i][j]); ni = std::max(ni, s); }
  if (invOut) *invOut = inv;
  return na * ni;
}
// normwise backward error of the library solution (first nc unknowns given, auxiliary star nodes eliminated exactly)
static double backwardError(const Dense &D, const std::vector<float> &sol, int nc, double span) {
  // solve for the auxiliary unknowns given the cell values (they are free variables of the same quadratic form)
  int n = D.N, na = n - nc;
  std::vector<double> x(n, 0);
  for (int i = 0; i < nc; ++i) x[i] = sol[i];
  if (na > 0) {
    std::vector<std::vector<double>> A(na, std::vector<double>(na));
    std::vector<double> b(na), y;
    for (int i = 0; i < na; ++i) {
      b[i] = D.b[nc + i];
      for (int j = 0; j < nc; ++j) b[i] -= D.A[nc + i][j] * x[j];
      for (int j = 0; j < na; ++j) A[i][j] = D.A[nc + i][nc + j];
    }
    if (!gauss(A, b, y)) return 0;
    for (int i = 0; i < na; ++i) x[nc + i] = y[i];
  }
  double rn = 0, an = 0, xn = 0, bn = 0;
  for (int i = 0; i < n; ++i) {
    double ri = -D.b[i];
    for (int j = 0; j < n; ++j) { ri += D.A[i][j] * x[j]; an += D.A[i][j] * D.A[i][j]; }
    rn += ri * ri;
    xn += x[i] * x[i];
    bn += D.b[i] * D.b[i];
  }
  // scale-aware: a solution whose entries are tiny compared with the coordinates of the problem (span) is judged
  // against the span, not against its own norm
  return std::sqrt(rn) / (std::sqrt(an) * std::max(std::sqrt(xn), span) + std::sqrt(bn) + 1e-300);
}
// Compare a library solution with the dense optimum. Well-conditioned: distance <= 2e-3 span.  Always: backward error <= 1e-4.
static void compareWithDense(const Dense &D, const std::vector<double> &x, const std::vector<float> &sol, int nc, double span, CaseResult &r, const std::string &key, const std::string &ctx, double condFactor, bool exactAssembly = false) {
  std::vector<std::vector<double>> inv;
  double c = cond1(D, &inv);
  double err = 0;
  for (int i = 0; i < nc; ++i) err = std::max(err, std::fabs(x[i] - sol[i]));
  // component-wise sensitivity (Skeel): |dx| <= |A^-1| (|A| |x| + |b|) gamma for relative data perturbations of size gamma.
  // Diagnostic: the largest error of a cell in units of that bound at gamma = float epsilon.
  if (!inv.empty()) {
    int n = D.N;
    std::vector<double> g(n, 0);
    for (int j = 0; j < n; ++j) { double sx = std::fabs(D.b[j]); for (int k = 0; k < n; ++k) sx += std::fabs(D.A[j][k]) * std::max(std::fabs(x[k]), 0.0); g[j] = sx; }
    double worst = 0;
    for (int i = 0; i < nc; ++i) {
      double bi = 0;
      for (int j = 0; j < n; ++j) bi += std::fabs(inv[i][j]) * g[j];
      bi = bi * 6e-8 + 1e-6 * span;
      worst = std::max(worst, std::fabs(x[i] - sol[i]) / bi);
    }
    // component-wise forward bound: on the unchanged tree every star instance stays below 1 unit and every two-pin instance
    // below 16 units (quick + thorough, several seeds); the limits are 8 units (star; fewer than 1 in 10^4 instances exceed 1 unit, none 2) and 160 units (two-pin)
    // when the system is assembled without any rounding (small dyadic data) only the solver and the final rounding contribute:
    // 3 units for the star model
    double cwLimit = condFactor <= 4.0 ? (exactAssembly ? 3.0 : 8.0) : 160.0;
    if (exactAssembly && condFactor <= 4.0) r.count(worst < 0.5 ? "exact_assembly_cw_err_lt_0.5" : worst < 1 ? "exact_assembly_cw_err_lt_1" : worst < 2 ? "exact_assembly_cw_err_lt_2" : "exact_assembly_cw_err_ge_2");
    if (worst > cwLimit) {
      char buf[200];
      snprintf(buf, sizeof buf, " a cell deviates from the optimum by %.1f x its component-wise float sensitivity |A^-1|(|A||x|+|b|) eps (limit %.0f; max |x - x_ref| = %g, span %g, cond1 %g)", worst, cwLimit, err, span, c);
      r.fail(key, ctx + buf);
    }
    r.count(worst < 1 ? "cw_err_lt_1" : worst < 2 ? "cw_err_lt_2" : worst < 4 ? "cw_err_lt_4" : worst < 8 ? "cw_err_lt_8" : worst < 16 ? "cw_err_lt_16" : worst < 64 ? "cw_err_lt_64" : "cw_err_ge_64");
  }
  double be = backwardError(D, sol, nc, span);
  if (!(be <= 1e-4)) r.fail(key, ctx + " normwise backward error " + std::to_string(be) + " (max |x - x_ref| = " + std::to_string(err) + ", span " + std::to_string(span) + ", cond " + std::to_string(c) + ")");
  {
    // diagnostic histogram: forward error in units of cond x float epsilon x span
    double q = err / (std::max(1.0, c) * 6e-8 * span);
    r.count(q < 1 ? "fwd_err_lt_1_cond_eps" : q < 3 ? "fwd_err_lt_3_cond_eps" : q < 10 ? "fwd_err_lt_10_cond_eps" : q < 30 ? "fwd_err_lt_30_cond_eps" : q < 100 ? "fwd_err_lt_100_cond_eps" : "fwd_err_ge_100_cond_eps");
  }
  // condition-scaled forward bound: condFactor x cond1 x float epsilon x span. Measured on the unchanged tree over 1.8e5
  // (star) / 1.5e5 (two-pin) instances: every star instance below 1 x, every two-pin instance below 10 x.
  {
    double bound = std::max(condFactor * std::max(1.0, c) * 6e-8, 1e-6) * span;
    if (!(err <= bound)) r.fail(key, ctx + " max |x - x_ref| = " + std::to_string(err) + " exceeds " + std::to_string(condFactor) + " x cond1 x eps x span = " + std::to_string(bound) + " (span " + std::to_string(span) + ", cond1 " + std::to_string(c) + ")");
  }
  if (c <= 2000) {
    r.count("well_conditioned");
    if (!(err <= 2e-3 * span)) r.fail(key, ctx + " max |x - x_ref| = " + std::to_string(err) + " span " + std::to_string(span) + " cond " + std::to_string(c));
    if (err > 2e-4 * span) r.count("within_10x_of_tolerance");
  } else {
    r.count("ill_conditioned_backward_error_only");
  }
}

// pins of a net as the library sees them (fixed pseudo pins appended; nets with <= 1 pin dropped)
static bool netPins(const NetSpec &t, std::vector<int> &c, std::vector<double> &o) {
  c = t.c;
  o.assign(t.o.begin(), t.o.end());
  if (c.empty()) return false;
  if (t.hasFix) {
    c.push_back(-1);
    o.push_back(t.mn);
    if (t.mx != t.mn) { c.push_back(-1); o.push_back(t.mx); }
  }
  return c.size() > 1;
}

static NetModel::Parameters tightParams(Rng &rng) {
  NetModel::Parameters P;
  P.tolerance = 1e-8;
  P.maxNbIterations = 5000;
  P.netModel = (NetModelOption)rng.range(0, 3);
  P.approximationDistance = (float)rng.unif(0.5, 20.0);
  P.penaltyCutoffDistance = (float)rng.unif(1.0, 100.0);
  return P;
}

// (c) least squares: initial star model, any degree
static void lsqStarCase(Rng &rng, CaseResult &r) {
  ModelSpec m = genModel(rng, false, true);
  NetModel::Parameters P = tightParams(rng);
  if (r.needSample()) r.sample = vf::J::obj().kv("what", "solveStar vs dense weighted least squares").kraw("model", specJson(m)).str();
  if (r.dumpOnly) return;
  NetModel nm = build(m, 1.0f);
  std::vector<float> sol = nm.solveStar(P);
  Dense D(m.nc);
  bool fractional = false;
  for (auto &t : m.nets) {
    std::vector<int> c;
    std::vector<double> o;
    if (!netPins(t, c, o)) continue;
    if (t.w != std::floor(t.w)) fractional = true;
    if (c.size() <= 2) D.addPin(c[0], c[1], o[0], o[1], t.w);
    else {
      double w = t.w / c.size();
      int star = D.addNode();
      for (size_t j = 0; j < c.size(); ++j) D.addPin(c[j], star, o[j], 0, w);
    }
  }
  std::vector<double> x;
  if (!D.positiveDefinite() || !gauss(D.A, D.b, x)) { r.count("skipped_not_positive_definite"); r.sig = "skip"; return; }
  compareWithDense(D, x, sol, m.nc, m.span, r, "C17:star-solution-is-not-the-weighted-least-squares-optimum", "solveStar:", 4.0, m.exactAssembly);
  r.count("compared");
  r.nontrivial = fractional;
  r.sig = "star n" + std::to_string(m.nc) + "k" + std::to_string(m.nets.size()) + (fractional ? "f" : "i");
}

// (c) least squares: 2-pin nets under every net model (all reduce to a reweighted bipoint)
static void lsqTwoPinCase(Rng &rng, CaseResult &r) {
  ModelSpec m = genModel(rng, true, true);
  NetModel::Parameters P = tightParams(rng);
  std::vector<float> pl(m.nc), target(m.nc), strength(m.nc);
  for (int i = 0; i < m.nc; ++i) { pl[i] = (float)rng.range(-200, 200); target[i] = (float)rng.range(-200, 200); strength[i] = (float)rng.pick(std::vector<double>{0.0, 0.03, 0.25, 1.0, 2.5}); }
  bool withPenalty = rng.chance(0.5);
  if (r.needSample()) r.sample = vf::J::obj().kv("what", "two-pin nets, solve / solveWithPenalty vs dense weighted least squares").kv("net_model", (int)P.netModel).kv("penalty", withPenalty).kraw("placement", vf::jarrd(pl)).kraw("target", vf::jarrd(target)).kraw("strength", vf::jarrd(strength)).kraw("model", specJson(m)).str();
  if (r.dumpOnly) return;
  NetModel nm = build(m, 1.0f);
  std::vector<float> sol = withPenalty ? nm.solveWithPenalty(pl, target, strength, P) : nm.solve(pl, P);
  // the model-specific entry points compute the same thing as the dispatching ones, bit for bit
  if (P.netModel == NetModelOption::Star || P.netModel == NetModelOption::BoundToBound) {
    bool star = P.netModel == NetModelOption::Star;
    std::vector<float> direct = withPenalty ? (star ? nm.solveStar(pl, target, strength, P) : nm.solveB2B(pl, target, strength, P)) : (star ? nm.solveStar(pl, P) : nm.solveB2B(pl, P));
    if (!bitEqual(sol, direct)) r.fail("C17:model-specific-entry-point-differs", std::string(star ? "solveStar" : "solveB2B") + (withPenalty ? " with penalty" : "") + " differs from " + (withPenalty ? "solveWithPenalty" : "solve") + " with the same net model");
    r.count("entry_point_pairs_compared");
  }
  Dense D(m.nc);
  bool fractional = false, tie = false;
  for (auto &t : m.nets) {
    std::vector<int> c;
    std::vector<double> o;
    if (!netPins(t, c, o)) continue;
    if (c.size() != 2) { r.fail("harness:not-a-two-pin-net", ""); return; }
    if (t.w != std::floor(t.w)) fractional = true;
    double p0 = (c[0] == -1 ? 0.0 : pl[c[0]]) + o[0], p1 = (c[1] == -1 ? 0.0 : pl[c[1]]) + o[1];
    double w = t.w / std::max((double)P.approximationDistance, std::fabs(p0 - p1));
    // bound-to-bound with two coincident pins: the same pin is both the net minimum and maximum and the other pin is
    // connected to it twice; the documented model is ambiguous there, so such instances are not compared
    if (P.netModel == NetModelOption::BoundToBound && p0 == p1 && c[0] != c[1]) tie = true;
    D.addPin(c[0], c[1], o[0], o[1], w);
  }
  if (withPenalty)
    for (int i = 0; i < m.nc; ++i) {
      double dist = std::fabs((double)pl[i] - target[i]);
      double s = strength[i] / std::max(dist, (double)P.penaltyCutoffDistance);
      D.addPin(i, -1, 0.0, target[i], s);
    }
  std::vector<double> x;
  if (tie) { r.count("skipped_b2b_coincident_pins"); r.sig = "tie"; return; }
  if (!D.positiveDefinite() || !gauss(D.A, D.b, x)) { r.count("skipped_not_positive_definite"); r.sig = "skip"; return; }
  double span = m.span;
  for (int i = 0; i < m.nc; ++i) span = std::max(span, (double)std::fabs(target[i]));
  compareWithDense(D, x, sol, m.nc, span, r, "C17:two-pin-solution-is-not-the-weighted-least-squares-optimum", "net model " + std::to_string((int)P.netModel) + (withPenalty ? " with penalty:" : ":"), 40.0);
  r.count("compared");
  r.nontrivial = fractional;
  r.sig = "two m" + std::to_string((int)P.netModel) + (withPenalty ? "p" : "-") + "n" + std::to_string(m.nc) + (fractional ? "f" : "i");
}

// (a)+(b) scaling on the NetModel level
static void scaleModelCase(Rng &rng, CaseResult &r, bool dyadic) {
  int api = (int)rng.range(0, 2);
  // non-dyadic factors are compared with a tolerance, which needs the conditioning of the system: the dense system is
  // available for the star model (any degree) and for two-pin nets (all models)
  ModelSpec m = genModel(rng, !dyadic && api != 0);
  NetModel::Parameters P = tightParams(rng);
  if (dyadic && rng.chance(0.5)) { P.tolerance = (float)std::pow(10.0, rng.unif(-6, -2)); P.maxNbIterations = (int)rng.range(1, 200); }
  std::vector<float> pl(m.nc), target(m.nc), strength(m.nc);
  for (int i = 0; i < m.nc; ++i) { pl[i] = (float)rng.unif(-200, 200); target[i] = (float)rng.unif(-200, 200); strength[i] = (float)rng.unif(0.001, 3.0); }
  int kexp = (int)rng.range(-3, 4);
  if (kexp == 0) kexp = 2;
  float k = dyadic ? (float)std::ldexp(1.0, kexp) : (float)rng.pick(std::vector<double>{2.5, 7.0, 0.3});
  if (r.needSample()) r.sample = vf::J::obj().kv("what", dyadic ? "power-of-two weight scaling, bitwise" : "non-dyadic weight scaling, tolerance").kv("factor", (double)k).kv("api", api == 0 ? "solveStar" : api == 1 ? "solve" : "solveWithPenalty").kv("net_model", (int)P.netModel).kraw("placement", vf::jarrd(pl)).kraw("target", vf::jarrd(target)).kraw("strength", vf::jarrd(strength)).kraw("model", specJson(m)).str();
  if (r.dumpOnly) return;
  NetModel a = build(m, 1.0f), b = build(m, k);
  std::vector<float> sa, sb;
  if (api == 0) {
    sa = a.solveStar(P); sb = b.solveStar(P);
    // the same model object solved again, and a copy of it, give the same bits (no state is carried between solves)
    NetModel a2 = a;
    std::vector<float> again = a.solveStar(P), copy = a2.solveStar(P);
    if (!bitEqual(sa, again) || !bitEqual(sa, copy)) r.fail("C17:second-solve-of-the-same-model-differs", "solveStar on the same NetModel object (or a copy of it) gives different bits the second time");
  }
  else if (api == 1) { sa = a.solve(pl, P); sb = b.solve(pl, P); }
  else {
    std::vector<float> s2 = strength;
    for (auto &s : s2) s *= k;
    sa = a.solveWithPenalty(pl, target, strength, P);
    sb = b.solveWithPenalty(pl, target, s2, P);
  }
  bool fractional = false;
  for (auto &t : m.nets) if (t.w != std::floor(t.w) || t.w * k != std::floor(t.w * k)) fractional = true;
  if (dyadic) {
    if (!bitEqual(sa, sb)) {
      double e = 0;
      int at = -1;
      for (int i = 0; i < m.nc; ++i) if (memcmp(&sa[i], &sb[i], sizeof(float)) != 0 && (at < 0 || std::fabs(sa[i] - sb[i]) > e)) { e = std::fabs(sa[i] - sb[i]); at = i; }
      char buf[160];
      snprintf(buf, sizeof buf, " max difference %.9g at cell %d (%.9g vs %.9g), %d cells", e, at, at >= 0 ? sa[at] : 0.0, at >= 0 ? sb[at] : 0.0, m.nc);
      r.fail("C17:power-of-two-scaling-changes-the-solution", "factor " + std::to_string(k) + " api " + std::to_string(api) + buf);
    }
  } else {
    // exact system of the unscaled problem: well-posed (positive definite) and well-conditioned instances only
    Dense D(m.nc);
    bool tie = false;
    for (auto &t : m.nets) {
      std::vector<int> c;
      std::vector<double> o;
      if (!netPins(t, c, o)) continue;
      if (api == 0) {
        if (c.size() <= 2) D.addPin(c[0], c[1], o[0], o[1], t.w);
        else { double w = t.w / c.size(); int star = D.addNode(); for (size_t j = 0; j < c.size(); ++j) D.addPin(c[j], star, o[j], 0, w); }
      } else {
        double p0 = (c[0] == -1 ? 0.0 : pl[c[0]]) + o[0], p1 = (c[1] == -1 ? 0.0 : pl[c[1]]) + o[1];
        if (P.netModel == NetModelOption::BoundToBound && p0 == p1 && c[0] != c[1]) tie = true;
        D.addPin(c[0], c[1], o[0], o[1], t.w / std::max((double)P.approximationDistance, std::fabs(p0 - p1)));
      }
    }
    if (api == 2) for (int i = 0; i < m.nc; ++i) D.addPin(i, -1, 0.0, target[i], strength[i] / std::max(std::fabs((double)pl[i] - target[i]), (double)P.penaltyCutoffDistance));
    if (tie || !D.positiveDefinite()) { r.count("skipped_not_positive_definite"); r.sig = "skip"; return; }
    double c1 = cond1(D);
    if (c1 > 2000) { r.count("skipped_ill_conditioned"); r.sig = "illcond"; return; }
    double span = m.span;
    for (int i = 0; i < m.nc; ++i) span = std::max(span, (double)std::max(std::fabs(target[i]), std::fabs(pl[i])));
    double e = 0;
    for (int i = 0; i < m.nc; ++i) e = std::max(e, (double)std::fabs(sa[i] - sb[i]));
    if (e > 2e-4 * span) r.count("within_10x_of_tolerance");
    if (!(e <= 2e-3 * span)) r.fail("C17:weight-scaling-changes-the-solution", "factor " + std::to_string(k) + " api " + std::to_string(api) + " net model " + std::to_string((int)P.netModel) + " max difference " + std::to_string(e) + " span " + std::to_string(span) + " cond " + std::to_string(c1));
  }
  r.count("compared");
  r.nontrivial = fractional;
  r.sig = std::string(dyadic ? "P" : "N") + std::to_string(api) + "m" + std::to_string((int)P.netModel) + "k" + std::to_string((int)(k * 8)) + (fractional ? "f" : "i") + "n" + std::to_string(std::min(m.nc, 12));
}

// (a) whole placeGlobal runs on circuits that differ only by a common power-of-two weight / penalty factor
static void scaleGlobalCase(Rng &rng, CaseResult &r) {
  GenOpts o = makeProfile(rng, "nets");
  o.minRowWidth4H = true;
  o.maxCells = 20;
  o.maxNets = 20;
  Circuit c0 = genCircuit(rng, o);
  std::string gdesc;
  ColoquinteParameters p((int)rng.range(1, 9), (int)rng.range(0, 100));
  if (rng.chance(0.5)) genGlobalParams(rng, p, &gdesc, 15); else { p.global.maxNbSteps = (int)rng.range(1, 20); p.global.continuousModel.netModel = (NetModelOption)rng.range(0, 3); }
  int kexp = (int)rng.range(-3, 4);
  if (kexp == 0) kexp = 2;
  float k = (float)std::ldexp(1.0, kexp);
  if (r.needSample()) r.sample = vf::J::obj().kv("what", "placeGlobal with all net weights and penalty.initialValue scaled by 2^k").kv("factor", (double)k).kv("params", gdesc).kraw("circuit", circuitJson(c0)).str();
  if (r.dumpOnly) return;
  if (c0.nbNets() == 0) { r.sig = "nonets"; return; }
  try { p.check(); } catch (const std::exception &) { r.count("parameter_set_rejected_by_check"); r.sig = "rejected"; return; }
  {
    // the weights a net model is built from are those the circuit was last given: every way of giving them must be honoured,
    // including "none given" (all nets weigh 1) when the same nets are sent again
    Circuit t = c0;
    std::vector<float> w2 = t.netWeights_;
    for (auto &x : w2) x = x * 1.5f + 0.25f;
    t.setNets(t.netLimits_, t.pinCells_, t.pinXOffsets_, t.pinYOffsets_, w2);
    if (t.netWeights_ != w2) r.fail("C17:weights-given-to-setNets-not-stored", "setNets with explicit weights on a circuit that already has these nets keeps other weights");
    t.setNets(std::vector<int>(t.netLimits_), std::vector<int>(t.pinCells_), std::vector<int>(t.pinXOffsets_), std::vector<int>(t.pinYOffsets_));
    for (float x : t.netWeights_) if (x != 1.0f) { r.fail("C17:weights-given-to-setNets-not-stored", "setNets without weights on a circuit that already has these nets keeps the old weights instead of 1"); break; }
    std::vector<float> w3(t.netWeights_.size(), 2.5f);
    t.setNetWeights(w3);
    if (t.netWeights_ != w3) r.fail("C17:weights-given-to-setNets-not-stored", "setNetWeights did not store the weights");
  }
  Circuit a = c0, b = c0;
  std::vector<float> w = b.netWeights_;
  for (auto &x : w) x *= k;
  b.setNetWeights(w);
  b.hasNetUpdate_ = false;
  ColoquinteParameters pb = p;
  pb.global.penalty.initialValue *= k;
  try {
    a.placeGlobal(p);
    b.placeGlobal(pb);
  } catch (const std::exception &e) {
    r.fail("C17:placeGlobal-threw", e.what());
    return;
  }
  if (a.cellX_ != b.cellX_ || a.cellY_ != b.cellY_) {
    int nd = 0;
    for (int i = 0; i < a.nbCells(); ++i) if (a.cellX_[i] != b.cellX_[i] || a.cellY_[i] != b.cellY_[i]) ++nd;
    r.fail("C17:power-of-two-scaling-changes-the-placement", "factor " + std::to_string(k) + ": " + std::to_string(nd) + " cells placed differently");
  }
  bool fractional = false;
  for (float x : c0.netWeights_) if (x != std::floor(x) || x * k != std::floor(x * k)) fractional = true;
  r.nontrivial = fractional;
  r.count("compared");
  r.sig = "G" + std::to_string(kexp) + "m" + std::to_string((int)p.global.continuousModel.netModel) + (fractional ? "f" : "i") + "s" + std::to_string(std::min(p.global.maxNbSteps / 4, 9));
}

int main(int argc, char **argv) {
  std::vector<vf::Part> parts;
  parts.push_back({"c17.lsq.star", [](uint64_t, Rng &rng, CaseResult &r) { lsqStarCase(rng, r); }, 20});
  parts.push_back({"c17.lsq.twopin", [](uint64_t, Rng &rng, CaseResult &r) { lsqTwoPinCase(rng, r); }, 20});
  parts.push_back({"c17.pow2.model", [](uint64_t, Rng &rng, CaseResult &r) { scaleModelCase(rng, r, true); }, 20});
  parts.push_back({"c17.scale.model", [](uint64_t, Rng &rng, CaseResult &r) { scaleModelCase(rng, r, false); }, 20});
  parts.push_back({"c17.pow2.global", [](uint64_t, Rng &rng, CaseResult &r) { scaleGlobalCase(rng, r); }, 60});
  return vf::runMain(argc, argv, parts);
}
