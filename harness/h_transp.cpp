// C13: TransportationProblem::solve against feasibility + min-cost-flow (lemon NetworkSimplex, 64-bit) + brute force
#include <lemon/network_simplex.h>
#include <lemon/smart_graph.h>

#include <climits>
#include <functional>

#include "place_global/transportation.hpp"
#include "vf.hpp"

using namespace coloquinte;
using vf::CaseResult;
using vf::Rng;
typedef long long ll;

static ll lemonOpt(const std::vector<ll> &cap, const std::vector<ll> &dem, const std::vector<std::vector<int>> &cost) {
  using namespace lemon;
  SmartDigraph g;
  int S = (int)dem.size(), K = (int)cap.size();
  std::vector<SmartDigraph::Node> src(S), snk(K);
  for (auto &n : src) n = g.addNode();
  for (auto &n : snk) n = g.addNode();
  SmartDigraph::Node T = g.addNode();
  SmartDigraph::ArcMap<ll> c(g, 0), u(g, 0);
  SmartDigraph::NodeMap<ll> sup(g, 0);
  ll tot = 0;
  for (int i = 0; i < S; ++i) {
    sup[src[i]] = dem[i];
    tot += dem[i];
    for (int k = 0; k < K; ++k) {
      auto a = g.addArc(src[i], snk[k]);
      c[a] = cost[k][i];
      u[a] = dem[i];
    }
  }
  for (int k = 0; k < K; ++k) {
    auto a = g.addArc(snk[k], T);
    c[a] = 0;
    u[a] = cap[k];
  }
  sup[T] = -tot;
  NetworkSimplex<SmartDigraph, ll, ll> ns(g);
  ns.costMap(c).upperMap(u).supplyMap(sup);
  auto r = ns.run();
  if (r != ns.OPTIMAL) return -1;
  return ns.totalCost<ll>();
}

// brute force: enumerate all integer allocations (tiny sizes only)
static ll bruteOpt(const std::vector<ll> &cap, const std::vector<ll> &dem, const std::vector<std::vector<int>> &cost) {
  int S = (int)dem.size(), K = (int)cap.size();
  std::vector<ll> rem = cap;
  ll best = LLONG_MAX;
  std::function<void(int, int, ll, ll)> rec = [&](int s, int k, ll left, ll acc) {
    if (acc >= best) return;
    if (s == S) { best = acc; return; }
    if (k == K - 1) {
      if (left <= rem[k]) { rem[k] -= left; rec(s + 1, 0, s + 1 < S ? dem[s + 1] : 0, acc + left * cost[k][s]); rem[k] += left; }
      return;
    }
    for (ll a = 0; a <= std::min(left, rem[k]); ++a) {
      rem[k] -= a;
      rec(s, k + 1, left - a, acc + a * cost[k][s]);
      rem[k] += a;
    }
  };
  rec(0, 0, dem[0], 0);
  return best;
}

static std::string pbStr(const std::vector<ll> &cap, const std::vector<ll> &dem, const std::vector<std::vector<int>> &cost) {
  std::ostringstream s;
  s << "capacities=" << vf::jarr(cap) << " demands=" << vf::jarr(dem) << " costs[sink][source]=[";
  for (auto &row : cost) s << vf::jarr(row);
  s << "]";
  return s.str();
}

// returns false on violation
static bool checkSolved(TransportationProblem &pb, const std::vector<ll> &dem, bool useBrute, const std::string &what, CaseResult &r) {
  int S = pb.nbSources(), K = pb.nbSinks();
  std::vector<ll> cap2 = pb.capacities();
  const auto &al = pb.allocations();
  std::string desc = what + " " + pbStr(cap2, dem, pb.costs());
  for (int i = 0; i < S; ++i) {
    ll s = 0;
    for (int k = 0; k < K; ++k) {
      if (al[k][i] < 0) { r.fail("C13:negative-allocation", desc); return false; }
      s += al[k][i];
    }
    if (s != dem[i]) { r.fail("C13:source-not-fully-allocated", "source " + std::to_string(i) + " allocated " + std::to_string(s) + " of " + std::to_string(dem[i]) + ": " + desc); return false; }
  }
  for (int k = 0; k < K; ++k) {
    ll s = 0;
    for (int i = 0; i < S; ++i) s += al[k][i];
    if (s > cap2[k]) { r.fail("C13:sink-over-capacity", "sink " + std::to_string(k) + " load " + std::to_string(s) + " capacity " + std::to_string(cap2[k]) + ": " + desc); return false; }
  }
  ll cst = 0;
  for (int k = 0; k < K; ++k)
    for (int i = 0; i < S; ++i) cst += al[k][i] * (ll)pb.costs()[k][i];
  ll opt = lemonOpt(cap2, dem, pb.costs());
  if (opt < 0) { r.inconclusive = true; return true; }
  if (useBrute) {
    ll bo = bruteOpt(cap2, dem, pb.costs());
    if (bo != opt) { r.fail("harness:oracles-disagree", "lemon " + std::to_string(opt) + " brute " + std::to_string(bo) + ": " + desc); return false; }
  }
  if (cst != opt) { r.fail("C13:plan-not-minimum-cost", "plan cost " + std::to_string(cst) + " optimum " + std::to_string(opt) + ": " + desc); return false; }
  auto as = pb.toAssignment();
  if ((int)as.size() != S) { r.fail("C13:assignment-size", desc); return false; }
  for (int i = 0; i < S; ++i) {
    ll best = -1;
    for (int k = 0; k < K; ++k) best = std::max(best, al[k][i]);
    if (as[i] < 0 || as[i] >= K || al[as[i]][i] != best) { r.fail("C13:assignment-not-argmax", "source " + std::to_string(i) + " assigned sink " + std::to_string(as[i]) + ": " + desc); return false; }
  }
  if (!pb.isFeasible()) { r.fail("C13:isFeasible-false-after-solve", desc); return false; }
  return true;
}

static void randomCase(Rng &rng, CaseResult &r, bool cascade = false) {
  // cascade: several sinks, more sources, unrelated wide-range costs, capacity barely above demand: many augmenting steps whose
  // label-correcting searches revisit sinks again and again
  int K = (int)rng.range(1, rng.chance(0.25) ? 16 : 5), S = (int)rng.range(1, rng.chance(0.2) ? 60 : 10);
  if (cascade) { K = (int)rng.range(4, 10); S = (int)rng.range(K, 24); }
  std::vector<ll> cap(K), dem(S);
  ll maxv = rng.chance(0.3) ? 3 : (rng.chance(0.5) ? 20 : 100000);
  if (cascade) maxv = rng.chance(0.6) ? 6 : 40;
  bool huge = !cascade && rng.chance(0.1);
  if (huge) maxv = 10000000000LL;  // demands beyond 32 bits (DemandType is long long)
  for (auto &d : dem) d = rng.range(1, maxv);
  for (auto &c : cap) c = rng.range(1, maxv);
  ll td = 0, tc = 0;
  for (auto d : dem) td += d;
  for (auto c : cap) tc += c;
  if (cascade && rng.chance(0.7)) {
    // tight: total capacity a little above total demand
    ll want = td + rng.range(0, 3);
    for (auto &c : cap) c = std::max<ll>(1, want / K);
    tc = 0;
    for (auto c : cap) tc += c;
    while (tc < want) { cap[rng.range(0, K - 1)] += 1; ++tc; }
  }
  bool useFloat = rng.chance(cascade ? 0.2 : 0.5);
  if (huge) useFloat = false;  // float costs are rescaled to ~2^29/K: the 64-bit reference objective would overflow
  int mode = (int)rng.range(0, 3);  // what to do when demand exceeds capacity
  bool balanced = rng.chance(0.2);
  if (balanced && K > 0) {  // exact balance
    if (tc > td) dem[0] += tc - td; else cap[0] += td - tc;
    td = tc = std::max(td, tc);
  }
  std::vector<std::vector<int>> ci(K, std::vector<int>(S));
  std::vector<std::vector<float>> cf(K, std::vector<float>(S));
  int cmax = rng.chance(0.3) ? 2 : (rng.chance(0.5) ? 10 : std::min(1000000, (1 << 29) / K));
  if (cascade) cmax = (int)rng.pick(std::vector<int>{1, 2, 3, 50, 120, 1000, 1000000});  // tiny ranges: exact cost ties everywhere
  if (huge) cmax = std::min(cmax, 1000);  // keep the 64-bit reference objective far from overflow
  bool geometric = !cascade && rng.chance(0.3);  // costs = |position difference| like the rough legalizer
  std::vector<int> ps(S), pk(K);
  for (auto &p : ps) p = (int)rng.range(0, cmax);
  for (auto &p : pk) p = (int)rng.range(0, cmax);
  for (int k = 0; k < K; ++k)
    for (int i = 0; i < S; ++i) {
      ci[k][i] = geometric ? std::abs(ps[i] - pk[k]) : (int)rng.range(0, cmax);
      cf[k][i] = geometric ? (float)std::abs(ps[i] - pk[k]) * 0.37f : (rng.chance(0.2) ? 0.0f : (float)(rng.unif() * cmax));
    }
  if (r.needSample()) {
    vf::J j = vf::J::obj();
    j.kraw("capacities", vf::jarr(cap)).kraw("demands", vf::jarr(dem)).kv("float_costs", useFloat);
    vf::J cm = vf::J::arr();
    for (int k = 0; k < K; ++k) cm.raw(useFloat ? vf::jarrd(cf[k]) : vf::jarr(ci[k]));
    j.kraw("costs", cm.str());
    r.sample = j.str();
  }
  if (r.dumpOnly) return;
  TransportationProblem pb = useFloat ? TransportationProblem(cap, dem, cf) : TransportationProblem(cap, dem, ci);
  if (useFloat) {
    // fixed-point conversion: monotone, error at most half a unit of the scaled grid
    float maxVal = 1.0e-8f;
    for (auto &row : cf) for (float d : row) maxVal = std::max(maxVal, d);
    double unit = (double)maxVal * 4.0 * K / (double)INT_MAX;
    for (int k = 0; k < K && r.viol.empty(); ++k)
      for (int i = 0; i < S; ++i) {
        if (std::fabs(pb.originalCost(k, i) - cf[k][i]) > unit * 0.501 + 1e-6 * cf[k][i]) r.fail("C13:fixed-point-cost-error", "cost " + std::to_string(cf[k][i]) + " became " + std::to_string(pb.originalCost(k, i)));
        for (int k2 = 0; k2 < K; ++k2)
          for (int i2 = 0; i2 < S; ++i2)
            if (cf[k][i] < cf[k2][i2] && pb.costs()[k][i] > pb.costs()[k2][i2]) r.fail("C13:fixed-point-not-monotone", "order of two costs inverted");
      }
  }
  std::string what = useFloat ? "float" : "int";
  if (td > tc) {
    pb.increaseCapacity();
    what += "+increaseCapacity";
    ll tc2 = pb.totalCapacity();
    if (tc2 < td) r.fail("C13:increaseCapacity-insufficient", "capacity " + std::to_string(tc2) + " < demand " + std::to_string(td));
  }
  (void)mode;
  try {
    if (rng.chance(0.1)) {
      // a warm start with the wrong shape is refused; the object is solved afterwards all the same
      std::vector<std::vector<ll>> bad((size_t)K + (rng.chance(0.3) ? 1 : 0), std::vector<ll>((size_t)std::max(0, S + (int)rng.range(-1, 1)), 0));
      if ((int)bad.size() == K && (bad.empty() || (int)bad[0].size() == S)) bad[0].push_back(0);
      if (rng.chance(0.7)) { try { pb.setAllocations(bad); } catch (const std::exception &) { r.count("warm_starts_refused"); } }
      else { std::vector<int> badAs((size_t)S + 1, K + 3); try { pb.setAssignment(badAs); } catch (const std::exception &) { r.count("warm_starts_refused"); } }
    }
    TransportationProblem untouched = pb;
    pb.solve();
    checkSolved(pb, dem, S <= 3 && K <= 3 && maxv <= 20, what, r);
    if (r.viol.empty() && rng.chance(0.3)) {
      // solving the same object again, and solving a copy taken before the first solve, must give plans that pass the same oracles
      pb.solve();
      checkSolved(pb, dem, false, what + " (second solve of the same object)", r);
      untouched.solve();
      checkSolved(untouched, dem, false, what + " (copy taken before the first solve)", r);
      if (r.viol.empty() && untouched.allocations() != pb.allocations()) r.fail("C13:second-solve-gives-another-plan", "the plan of a second solve() differs from the plan computed on a copy of the unsolved problem: " + what);
      r.count("problems_solved_again");
    }
  } catch (const std::exception &e) {
    r.fail("C13:solver-threw-on-a-feasible-problem", std::string(e.what()) + ": " + what + " " + pbStr(pb.capacities(), dem, pb.costs()));
  }
  r.nontrivial = S >= 2 && K >= 2;
  r.sig = what + "K" + std::to_string(K) + "S" + std::to_string(std::min(S / 4, 15)) + "c" + std::to_string(cmax <= 2 ? 0 : cmax <= 10 ? 1 : 2) + (td > tc ? "U" : td == tc ? "B" : "L") + (geometric ? "g" : "r") + (huge ? "H" : "") + (cascade ? "C" : "");
}

// Huge demands with capacities that are sums of some demands plus a tiny slack: when a sink is left with a handful of free
// units, a solver that advances by the free units of a bottleneck (instead of by whole sources) needs a number of steps
// proportional to the demands. The oracle is the usual one plus the CPU budget of the part (a few seconds for <= 6 x 6).
static void nearFullCase(Rng &rng, CaseResult &r) {
  int K = (int)rng.range(2, 6), S = (int)rng.range(2, 8);
  ll lo = rng.chance(0.5) ? 1000000000LL : 1000000LL, hi = rng.chance(0.5) ? 1000000000000LL : 20000000000LL;
  std::vector<ll> dem(S), cap(K, 0);
  for (auto &d : dem) d = rng.range(lo, hi);
  if (rng.chance(0.3)) for (auto &d : dem) d = d / 1000 * 1000;  // areas are products of sizes: common factors
  for (int i = 0; i < S; ++i) cap[rng.range(0, K - 1)] += dem[i];
  for (auto &c : cap) c += rng.range(0, 3);
  if (rng.chance(0.5)) cap[rng.range(0, K - 1)] += rng.range(0, hi);
  for (auto &c : cap) if (c == 0) c = rng.range(1, 3);
  int cmax = (int)rng.pick(std::vector<int>{3, 20, 1000});
  bool geometric = rng.chance(0.4);
  std::vector<int> ps(S), pk(K);
  for (auto &p : ps) p = (int)rng.range(0, cmax);
  for (auto &p : pk) p = (int)rng.range(0, cmax);
  std::vector<std::vector<int>> ci(K, std::vector<int>(S));
  for (int k = 0; k < K; ++k)
    for (int i = 0; i < S; ++i) ci[k][i] = geometric ? std::abs(ps[i] - pk[k]) : (int)rng.range(0, cmax);
  if (r.needSample()) {
    vf::J j = vf::J::obj();
    j.kraw("capacities", vf::jarr(cap)).kraw("demands", vf::jarr(dem));
    vf::J cm = vf::J::arr();
    for (int k = 0; k < K; ++k) cm.raw(vf::jarr(ci[k]));
    j.kraw("costs", cm.str());
    r.sample = j.str();
  }
  if (r.dumpOnly) return;
  TransportationProblem pb(cap, dem, ci);
  try {
    pb.solve();
    checkSolved(pb, dem, false, "nearfull", r);
  } catch (const std::exception &e) {
    r.fail("C13:solver-threw-on-a-feasible-problem", std::string(e.what()) + ": nearfull " + pbStr(cap, dem, ci));
  }
  r.nontrivial = true;
  r.sig = "nfK" + std::to_string(K) + "S" + std::to_string(S) + "c" + std::to_string(cmax) + (geometric ? "g" : "r") + (hi > 20000000000LL ? "H" : "h");
}

// exhaustive tiny: case = (S, K, demands, capacities) with values 1..3; enumerates every cost matrix over {0..cmaxv}
static void exhaustiveCase(uint64_t idx, CaseResult &r, int costValues) {
  // decode
  int S = -1, K = -1;
  std::vector<ll> dem, cap;
  uint64_t rest = idx;
  bool found = false;
  for (int s = 1; s <= 3 && !found; ++s)
    for (int k = 1; k <= 3 && !found; ++k) {
      uint64_t cnt = 1;
      for (int i = 0; i < s + k; ++i) cnt *= 3;
      if (rest < cnt) { S = s; K = k; found = true; } else rest -= cnt;
    }
  if (!found) { r.sig = "none"; return; }
  for (int i = 0; i < S; ++i) { dem.push_back(1 + rest % 3); rest /= 3; }
  for (int k = 0; k < K; ++k) { cap.push_back(1 + rest % 3); rest /= 3; }
  r.sig = "S" + std::to_string(S) + "K" + std::to_string(K) + "d" + vf::jarr(dem) + "c" + vf::jarr(cap);
  if (r.needSample()) r.sample = vf::J::obj().kraw("demands", vf::jarr(dem)).kraw("capacities", vf::jarr(cap)).kv("what", "every cost matrix with entries in 0.." + std::to_string(costValues - 1)).str();
  if (r.dumpOnly) return;
  ll td = 0, tc = 0;
  for (auto d : dem) td += d;
  for (auto c : cap) tc += c;
  uint64_t total = 1;
  for (int i = 0; i < S * K; ++i) total *= costValues;
  long long solved = 0;
  for (uint64_t code = 0; code < total; ++code) {
    std::vector<std::vector<int>> ci(K, std::vector<int>(S));
    uint64_t x = code;
    for (int k = 0; k < K; ++k)
      for (int i = 0; i < S; ++i) { ci[k][i] = (int)(x % costValues); x /= costValues; }
    TransportationProblem pb(cap, dem, ci);
    if (td > tc) pb.increaseCapacity();
    try {
      pb.solve();
    } catch (const std::exception &e) {
      r.fail("C13:solver-threw-on-a-feasible-problem", std::string(e.what()) + ": " + pbStr(pb.capacities(), dem, pb.costs()));
      break;
    }
    ++solved;
    if (!checkSolved(pb, dem, code % 7 == 0, td > tc ? "exhaustive+increaseCapacity" : "exhaustive", r)) break;
  }
  r.count("problems_solved", solved);
  r.nontrivial = S * K > 1;
}

int main(int argc, char **argv) {
  std::vector<vf::Part> parts;
  parts.push_back(vf::threaded("c13.threads", [](uint64_t, Rng &rng, CaseResult &r) { randomCase(rng, r); }, 4, 25, 120));
  parts.push_back({"c13.random", [](uint64_t, Rng &rng, CaseResult &r) { randomCase(rng, r); }, 6});
  parts.push_back({"c13.cascade", [](uint64_t, Rng &rng, CaseResult &r) { randomCase(rng, r, true); }, 6});
  parts.push_back({"c13.nearfull", [](uint64_t, Rng &rng, CaseResult &r) { nearFullCase(rng, r); }, 5});
  parts.push_back({"c13.exhaustive2", [](uint64_t idx, Rng &, CaseResult &r) { exhaustiveCase(idx, r, 2); }, 10});
  parts.push_back({"c13.exhaustive3", [](uint64_t idx, Rng &, CaseResult &r) { exhaustiveCase(idx, r, 3); }, 40});
  return vf::runMain(argc, argv, parts);
}
