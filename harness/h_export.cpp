// C20 (a): the real Circuit::exportIspd writes a benchmark; a Python co-process re-reads it with the real
// pycoloquinte/coloquinte.py reader and compares every field with the ground truth dumped here.
#include <sys/stat.h>
#include <unistd.h>

#include <fstream>

#include "circ.hpp"

#ifndef VERIF_ROOT
#define VERIF_ROOT "/verif"
#endif

using namespace coloquinte;
using namespace vfc;
using vf::CaseResult;
using vf::Rng;

struct CoProc {
  FILE *to = nullptr, *from = nullptr;
  pid_t pid = -1;
  bool start() {
    int a[2], b[2];
    if (pipe(a) || pipe(b)) return false;
    pid = fork();
    if (pid < 0) return false;
    if (pid == 0) {
      dup2(a[0], 0);
      dup2(b[1], 1);
      close(a[0]); close(a[1]); close(b[0]); close(b[1]);
      // the sanitizer runtime must not be preloaded into python
      unsetenv("LD_PRELOAD");
      execlp("python3", "python3", VERIF_ROOT "/tools/rt_check.py", "--server", (char *)nullptr);
      _exit(127);
    }
    close(a[0]);
    close(b[1]);
    to = fdopen(a[1], "w");
    from = fdopen(b[0], "r");
    return to && from;
  }
  // returns false on protocol failure
  bool query(const std::string &base, std::string &answer) {
    if (!to && !start()) return false;
    fprintf(to, "%s\n", base.c_str());
    fflush(to);
    char *line = nullptr;
    size_t cap = 0;
    ssize_t n = getline(&line, &cap, from);
    if (n <= 0) { free(line); return false; }
    answer.assign(line, n);
    free(line);
    while (!answer.empty() && (answer.back() == '\n' || answer.back() == '\r')) answer.pop_back();
    return true;
  }
};
static CoProc g_py;

static std::string scratchDir() {
  const char *e = getenv("VERIF_SCRATCH");
  std::string d = e ? e : VERIF_ROOT "/build/tmp/c20";
  mkdir((std::string(VERIF_ROOT) + "/build").c_str(), 0755);
  mkdir((std::string(VERIF_ROOT) + "/build/tmp").c_str(), 0755);
  mkdir(d.c_str(), 0755);
  return d;
}

static void exportCase(uint64_t idx, Rng &rng, CaseResult &r) {
  GenOpts o = makeProfile(rng, rng.pick(std::vector<std::string>{"general", "nets", "manyfixed", "multirow", "turned"}));
  o.scale = (int)rng.pick(std::vector<int>{1, 1, 3, 10, 100});
  if (o.scale == 100) o.maxCells = std::min(o.maxCells, 20);
  o.rowOrientPattern = 3 - (rng.chance(0.5) ? 0 : (int)rng.range(0, 3));
  Circuit c = genCircuit(rng, o);
  bool placed = rng.chance(0.7);
  for (int i = 0; i < c.nbCells(); ++i) {
    if (rng.chance(0.7)) c.cellOrientation_[i] = ALL8[rng.range(0, 7)];
    if (!placed) { c.cellX_[i] = 0; c.cellY_[i] = 0; }
  }
  if (rng.chance(0.5)) {  // a few pins far outside the cell outline, negative offsets
    for (size_t p = 0; p < c.pinXOffsets_.size(); ++p)
      if (rng.chance(0.2)) { c.pinXOffsets_[p] = (int)rng.range(-3000, 3000); c.pinYOffsets_[p] = (int)rng.range(-3000, 3000); }
  }
  if (rng.chance(0.05)) {  // one very large net (clock / reset like)
    int deg = (int)rng.range(200, 1200);
    std::vector<int> cells, xo, yo;
    for (int k = 0; k < deg; ++k) { int cc = (int)rng.range(0, c.nbCells() - 1); cells.push_back(cc); xo.push_back((int)rng.range(0, std::max(0, c.cellWidth_[cc]))); yo.push_back((int)rng.range(0, std::max(0, c.cellHeight_[cc]))); }
    c.addNet(cells, xo, yo, 1.0f);
  }
  if (r.needSample()) r.sample = vf::J::obj().kv("what", "exportIspd -> coloquinte.py read_ispd round trip").kraw("circuit", circuitJson(c)).str();
  if (r.dumpOnly) return;
  std::string base = scratchDir() + "/p" + std::to_string((long)getpid()) + "_c" + std::to_string((unsigned long long)idx);
  if (rng.chance(0.15)) base += rng.chance(0.5) ? ".v2" : ".placed.final";  // design names with dots
  if (rng.chance(0.1)) {
    // the directory has a past: an earlier revision of the design was exported under the same name and compressed in place (as
    // benchmarks are usually stored). The fresh export must be what is read back.
    Circuit old = c;
    for (int i = 0; i < old.nbCells(); ++i) { old.cellX_[i] += 7; old.cellY_[i] -= 3; if (!old.cellIsFixed_[i]) old.cellWidth_[i] += 1; }
    old.exportIspd(base);
    std::string cmd = "for e in nodes nets pl scl wts; do [ -f '" + base + ".'$e ] && gzip -f '" + base + ".'$e; done 2>/dev/null";
    if (system(cmd.c_str()) == -1) r.count("gzip_unavailable"); else r.count("exports_next_to_stale_compressed_files");
  }
  c.exportIspd(base);
  {
    std::ofstream f(base + ".truth.json");
    vf::J t = vf::J::obj();
    vf::J cells = vf::J::arr();
    for (int i = 0; i < c.nbCells(); ++i) {
      vf::J x = vf::J::arr();
      x.v(c.cellWidth_[i]).v(c.cellHeight_[i]).v((int)c.cellIsFixed_[i]).v(c.cellX_[i]).v(c.cellY_[i]).v(std::string(oname(c.cellOrientation_[i])));
      cells.raw(x.str());
    }
    t.kraw("cells", cells.str());
    vf::J nets = vf::J::arr();
    for (int n = 0; n < c.nbNets(); ++n) {
      vf::J pins = vf::J::arr();
      for (int p = c.netLimits_[n]; p < c.netLimits_[n + 1]; ++p) { vf::J pp = vf::J::arr(); pp.v(c.pinCells_[p]).v(c.pinXOffsets_[p]).v(c.pinYOffsets_[p]); pins.raw(pp.str()); }
      nets.raw(pins.str());
    }
    t.kraw("nets", nets.str());
    vf::J rows = vf::J::arr();
    for (auto &row : c.rows_) { vf::J x = vf::J::arr(); x.v(row.minX).v(row.maxX).v(row.minY).v(row.maxY).v(std::string(oname(row.orientation))); rows.raw(x.str()); }
    t.kraw("rows", rows.str());
    t.kv("hpwl", c.hpwl());
    f << t.str() << "\n";
  }
  std::string ans;
  bool ok = g_py.query(base, ans);
  if (!r.verbose) for (const char *ext : {".aux", ".nodes", ".nets", ".pl", ".scl", ".truth.json"}) unlink((base + ext).c_str());
  else fprintf(stderr, "files kept: %s.*\n", base.c_str());
  if (!ok) { r.inconclusive = true; r.fail("harness:python-monitor-unavailable", "no answer from tools/rt_check.py"); return; }
  std::set<int> orients;
  for (int i = 0; i < c.nbCells(); ++i) orients.insert((int)c.cellOrientation_[i]);
  std::set<int> rowOr;
  for (auto &row : c.rows_) rowOr.insert((int)row.orientation);
  if (ans != "OK") {
    // BAD \t key \t msg \t key \t msg ...
    std::vector<std::string> tok;
    size_t pos = 0;
    while (true) {
      size_t q = ans.find('\t', pos);
      tok.push_back(ans.substr(pos, q == std::string::npos ? std::string::npos : q - pos));
      if (q == std::string::npos) break;
      pos = q + 1;
    }
    if (tok.empty() || tok[0] != "BAD") { r.inconclusive = true; r.fail("harness:python-monitor-protocol", ans.substr(0, 300)); return; }
    for (size_t k = 1; k + 1 < tok.size(); k += 2) r.fail(tok[k], tok[k + 1]);
  }
  r.nontrivial = c.nbNets() > 0;
  r.sig = "o" + std::to_string(orients.size()) + "r" + std::to_string(rowOr.size()) + (placed ? "p" : "u") + "s" + std::to_string(o.scale) + "n" + std::to_string(std::min(c.nbNets() / 4, 9)) + "c" + std::to_string(std::min(c.nbCells() / 4, 9));
}

int main(int argc, char **argv) {
  std::vector<vf::Part> parts;
  parts.push_back({"c20.roundtrip", [](uint64_t idx, Rng &rng, CaseResult &r) { exportCase(idx, rng, r); }, 20});
  return vf::runMain(argc, argv, parts);
}
