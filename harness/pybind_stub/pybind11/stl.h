#pragma once
