#pragma once
