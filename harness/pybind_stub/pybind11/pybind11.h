// Recording stand-in for pybind11 (the real one is not installed in this sandbox): executing the PYBIND11_MODULE body
// of the real pycoloquinte/module.cpp against these classes logs every registration with the actual C++ entity
// (enumerator value, raw bytes of the pointer-to-member) so that a monitor can compare them with the expected entity.
#pragma once
#include <cstdio>
#include <cstring>
#include <functional>
#include <optional>
#include <string>
#include <type_traits>
#include <typeinfo>
#include <utility>
#include <vector>
namespace pybind11 {
struct BindingRecord {
  std::string scope, kind, name;
  long long enumValue = 0;
  std::string memberBytes;   // raw bytes of pointer-to-member (getter / data member / method)
  std::string memberBytes2;  // setter of a read-write property
  std::string typeName, typeName2;
  bool isMemberPointer = false;
};
inline std::vector<BindingRecord> &records() {
  static std::vector<BindingRecord> r;
  return r;
}
// Callables registered through lambdas (three-argument ones: self, parameters, callback) are kept so that a monitor can run
// them and compare their effect with the C++ member the Python name promises.
using ErasedCall3 = std::function<void(void *, const void *, void *)>;
inline std::vector<std::pair<std::string, ErasedCall3>> &lambdas3() {
  static std::vector<std::pair<std::string, ErasedCall3>> v;
  return v;
}
template <class T>
struct call3_traits { static constexpr bool ok = false; };
template <class C, class R, class A0, class A1, class A2>
struct call3_traits<R (C::*)(A0, A1, A2) const> {
  static constexpr bool ok = true;
  using a0 = std::remove_reference_t<A0>;
  using a1 = std::remove_cv_t<std::remove_reference_t<A1>>;
  using a2 = std::remove_reference_t<A2>;
};
template <class F, class = void>
struct lambda3 { static constexpr bool ok = false; };
template <class F>
struct lambda3<F, std::void_t<decltype(&F::operator())>> : call3_traits<decltype(&F::operator())> {};
template <class P>
std::string rawBytes(P p) {
  if constexpr (std::is_member_pointer<P>::value) {
    std::string s(sizeof(P), '\0');
    std::memcpy(&s[0], &p, sizeof(P));
    return s;
  } else {
    return std::string();
  }
}
struct arg {
  const char *n;
  explicit arg(const char *n) : n(n) {}
  template <class T>
  arg &operator=(T &&) { return *this; }
};
template <class... A>
struct init_t {};
template <class... A>
init_t<A...> init() { return {}; }
struct gil_scoped_release {};
struct module_ {
  std::string name;
  std::string docstr;
  std::string &doc() { return docstr; }
};
using module = module_;
template <class E>
struct enum_ {
  std::string scope;
  enum_(module_ &, const char *n) : scope(n) {}
  enum_ &value(const char *n, E v, const char * = nullptr) {
    BindingRecord r;
    r.scope = scope; r.kind = "enum"; r.name = n; r.enumValue = (long long)v; r.typeName = typeid(E).name();
    records().push_back(r);
    return *this;
  }
  enum_ &export_values() { return *this; }
};
template <class T, class... Bases>
struct class_ {
  std::string scope;
  class_(module_ &, const char *n) : scope(n) {
    BindingRecord r;
    r.scope = n; r.kind = "class"; r.name = n; r.typeName = typeid(T).name();
    records().push_back(r);
  }
  template <class... A, class... X>
  class_ &def(init_t<A...>, X &&...) { return *this; }
  template <class F, class... X>
  class_ &def(const char *n, F f, X &&...) {
    BindingRecord r;
    r.scope = scope; r.kind = "def"; r.name = n; r.memberBytes = rawBytes(f); r.typeName = typeid(F).name(); r.isMemberPointer = std::is_member_pointer<F>::value;
    records().push_back(r);
    if constexpr (!std::is_member_pointer<F>::value) {
      if constexpr (lambda3<F>::ok) {
        using L = lambda3<F>;
        lambdas3().emplace_back(scope + "." + n, [f](void *p0, const void *p1, void *p2) {
          f(*static_cast<typename L::a0 *>(p0), *static_cast<const typename L::a1 *>(p1), std::move(*static_cast<typename L::a2 *>(p2)));
        });
      }
    }
    return *this;
  }
  template <class M>
  class_ &def_readwrite(const char *n, M m) {
    BindingRecord r;
    r.scope = scope; r.kind = "readwrite"; r.name = n; r.memberBytes = rawBytes(m); r.typeName = typeid(M).name(); r.isMemberPointer = std::is_member_pointer<M>::value;
    records().push_back(r);
    return *this;
  }
  template <class M>
  class_ &def_readonly(const char *n, M m) {
    BindingRecord r;
    r.scope = scope; r.kind = "readonly"; r.name = n; r.memberBytes = rawBytes(m); r.typeName = typeid(M).name(); r.isMemberPointer = std::is_member_pointer<M>::value;
    records().push_back(r);
    return *this;
  }
  template <class G, class... X>
  class_ &def_property_readonly(const char *n, G g, X &&...) {
    BindingRecord r;
    r.scope = scope; r.kind = "property_ro"; r.name = n; r.memberBytes = rawBytes(g); r.typeName = typeid(G).name(); r.isMemberPointer = std::is_member_pointer<G>::value;
    records().push_back(r);
    return *this;
  }
  template <class G, class S, class... X>
  class_ &def_property(const char *n, G g, S s, X &&...) {
    BindingRecord r;
    r.scope = scope; r.kind = "property"; r.name = n; r.memberBytes = rawBytes(g); r.memberBytes2 = rawBytes(s); r.typeName = typeid(G).name(); r.typeName2 = typeid(S).name();
    r.isMemberPointer = std::is_member_pointer<G>::value;
    records().push_back(r);
    return *this;
  }
};
}  // namespace pybind11
#define PYBIND11_MODULE(name, var) void pybind11_init_##name(pybind11::module_ &var)
