// Verification harness runtime: deterministic PRNG, fork-isolated case execution with CPU-time
// budgets, result aggregation. One "part" = one workload of one harness binary.
//
// Process model:   check (python)  --16x-->  harness --shard i/k   (supervisor, this file)
//                                                 \--fork--> worker (runs cases sequentially)
// The worker announces every case on a pipe before calling the library (B <idx>) and reports the
// outcome afterwards.  If the worker dies (assert, sanitizer abort, SIGSEGV, ...), the supervisor
// attributes the death to the announced case, extracts the first report block of the worker's stderr
// as the violation signature, and forks a new worker for the remaining cases.
#pragma once
#include <fcntl.h>
#include <poll.h>
#include <signal.h>
#include <sys/resource.h>
#include <sys/time.h>
#include <sys/wait.h>
#include <unistd.h>

#include <algorithm>
#include <thread>
#include <cerrno>
#include <cmath>
#include <cstdint>
#include <cstdio>
#include <cstdlib>
#include <cstring>
#include <fstream>
#include <functional>
#include <map>
#include <set>
#include <sstream>
#include <string>
#include <vector>

namespace vf {

// ------------------------------------------------------------------ PRNG (splitmix64)
struct Rng {
  uint64_t s;
  explicit Rng(uint64_t seed) : s(seed) {}
  static uint64_t mix(uint64_t z) {
    z = (z ^ (z >> 30)) * 0xBF58476D1CE4E5B9ull;
    z = (z ^ (z >> 27)) * 0x94D049BB133111EBull;
    return z ^ (z >> 31);
  }
  uint64_t next() { return mix(s += 0x9E3779B97F4A7C15ull); }
  // inclusive range
  long long range(long long lo, long long hi) {
    if (hi <= lo) return lo;
    return lo + (long long)(next() % (uint64_t)(hi - lo + 1));
  }
  double unif() { return (next() >> 11) * (1.0 / 9007199254740992.0); }
  double unif(double lo, double hi) { return lo + (hi - lo) * unif(); }
  bool chance(double p) { return unif() < p; }
  template <class T>
  const T &pick(const std::vector<T> &v) {
    return v[range(0, (long long)v.size() - 1)];
  }
  template <class T>
  T pick(std::initializer_list<T> l) {
    std::vector<T> v(l);
    return v[range(0, (long long)v.size() - 1)];
  }
};
// The PRNG of a case is a pure function of (seed, part name, case index)
inline uint64_t caseSeed(uint64_t seed, const std::string &part, uint64_t idx) {
  uint64_t h = 1469598103934665603ull;
  for (char c : part) h = (h ^ (unsigned char)c) * 1099511628211ull;
  return Rng::mix(Rng::mix(seed ^ 0x5bd1e995ull) ^ h) ^ Rng::mix(idx * 0x9E3779B97F4A7C15ull + 1);
}

// ------------------------------------------------------------------ tiny JSON writer
inline std::string jesc(const std::string &s) {
  std::string o;
  for (unsigned char c : s) {
    switch (c) {
      case '"': o += "\\\""; break;
      case '\\': o += "\\\\"; break;
      case '\n': o += "\\n"; break;
      case '\t': o += "\\t"; break;
      case '\r': o += "\\r"; break;
      default:
        if (c < 0x20) {
          char b[8];
          snprintf(b, sizeof b, "\\u%04x", c);
          o += b;
        } else
          o += (char)c;
    }
  }
  return o;
}
struct J {
  std::string s;
  bool first = true;
  char close;
  static J obj() { J j; j.s = "{"; j.close = '}'; return j; }
  static J arr() { J j; j.s = "["; j.close = ']'; return j; }
  void sep() { if (!first) s += ","; first = false; }
  J &key(const std::string &k) { sep(); s += "\"" + jesc(k) + "\":"; return *this; }
  J &kv(const std::string &k, const std::string &v) { key(k); s += "\"" + jesc(v) + "\""; return *this; }
  J &kv(const std::string &k, const char *v) { return kv(k, std::string(v)); }
  J &kv(const std::string &k, long long v) { key(k); s += std::to_string(v); return *this; }
  J &kv(const std::string &k, int v) { return kv(k, (long long)v); }
  J &kv(const std::string &k, unsigned long long v) { key(k); s += std::to_string(v); return *this; }
  J &kv(const std::string &k, size_t v) { key(k); s += std::to_string(v); return *this; }
  J &kv(const std::string &k, bool v) { key(k); s += v ? "true" : "false"; return *this; }
  J &kv(const std::string &k, double v) {
    key(k);
    if (std::isfinite(v)) { char b[40]; snprintf(b, sizeof b, "%.9g", v); s += b; } else s += "null";
    return *this;
  }
  J &kraw(const std::string &k, const std::string &raw) { key(k); s += raw; return *this; }
  J &v(const std::string &x) { sep(); s += "\"" + jesc(x) + "\""; return *this; }
  J &v(long long x) { sep(); s += std::to_string(x); return *this; }
  J &v(int x) { return v((long long)x); }
  J &v(double x) { sep(); char b[40]; snprintf(b, sizeof b, "%.9g", x); s += std::isfinite(x) ? b : "null"; return *this; }
  J &raw(const std::string &x) { sep(); s += x; return *this; }
  std::string str() const { return s + close; }
};
template <class T>
inline std::string jarr(const std::vector<T> &v) {
  J a = J::arr();
  for (auto &x : v) a.v((long long)x);
  return a.str();
}
inline std::string jarrd(const std::vector<float> &v) {
  J a = J::arr();
  for (auto &x : v) a.v((double)x);
  return a.str();
}

// ------------------------------------------------------------------ case result
struct Violation {
  std::string key;  // signature used for known-findings matching and de-duplication
  std::string msg;
};
struct CaseResult {
  bool evalOnly = false;                       // fresh-process evaluation: compute evalOut and return
  std::string evalOut;
  bool nontrivial = false;
  std::string sig;                             // feature signature (distinctness)
  std::vector<Violation> viol;
  std::map<std::string, long long> counters;   // summed over cases
  std::string sample;                          // JSON object describing the input (when wanted)
  bool wantSample = false;                     // set by the runner
  bool dumpOnly = false;                       // generate the input, fill sample, do not call the library
  bool verbose = false;
  bool inconclusive = false;                   // oracle could not decide (counts, never a violation)
  void fail(const std::string &key, const std::string &msg) {
    for (auto &v : viol) if (v.key == key) return;
    viol.push_back({key, msg});
  }
  void count(const std::string &k, long long n = 1) { counters[k] += n; }
  bool needSample() const { return wantSample || dumpOnly || !viol.empty(); }
};
using CaseFn = std::function<void(uint64_t idx, Rng &rng, CaseResult &r)>;

struct Part {
  std::string name;
  CaseFn fn;
  double cpuBudgetSec = 60;  // per case CPU budget (first firing: re-run once with 10x)
};

// A part that runs `perThread` cases of `fn` in each of `nThreads` threads at the same time, every thread on its own objects:
// independent objects used from different threads must not influence each other (under ThreadSanitizer any shared mutable state
// in the library shows up as a data race; the oracles inside `fn` judge every result as usual).
inline Part threaded(const std::string &name, CaseFn fn, int nThreads, int perThread, double budget) {
  CaseFn wrapped = [fn, nThreads, perThread](uint64_t idx, Rng &rng, CaseResult &r) {
    if (r.dumpOnly) { r.sample = "{\"what\":\"" + std::to_string(nThreads) + " threads x " + std::to_string(perThread) + " cases on independent objects\"}"; return; }
    std::vector<CaseResult> res((size_t)nThreads);
    std::vector<uint64_t> seeds;
    for (int t = 0; t < nThreads; ++t) seeds.push_back(rng.next());
    std::vector<std::thread> th;
    for (int t = 0; t < nThreads; ++t)
      th.emplace_back([&, t]() {
        Rng trng(seeds[(size_t)t]);
        for (int k = 0; k < perThread; ++k) {
          CaseResult one;
          try { fn(idx * 1000 + (uint64_t)k, trng, one); } catch (const std::exception &e) { one.fail("harness-uncaught-exception", e.what()); }
          for (auto &v : one.viol) res[(size_t)t].fail(v.key, v.msg);
          for (auto &c : one.counters) res[(size_t)t].counters[c.first] += c.second;
        }
      });
    for (auto &x : th) x.join();
    for (auto &one : res) { for (auto &v : one.viol) r.fail(v.key, "(concurrent run) " + v.msg); for (auto &c : one.counters) r.counters[c.first] += c.second; }
    r.count("concurrent_cases", (long long)nThreads * perThread);
    r.nontrivial = true;
    r.sig = "threads" + std::to_string(nThreads);
  };
  return Part{name, wrapped, budget};
}

// ------------------------------------------------------------------ wire helpers
inline std::string wesc(const std::string &s) {
  std::string o;
  for (char c : s) {
    if (c == '\n') o += "\\n";
    else if (c == '\\') o += "\\\\";
    else if (c == '\x1f') o += ' ';
    else o += c;
  }
  return o;
}
inline std::string wunesc(const std::string &s) {
  std::string o;
  for (size_t i = 0; i < s.size(); ++i) {
    if (s[i] == '\\' && i + 1 < s.size()) {
      ++i;
      o += (s[i] == 'n') ? '\n' : s[i];
    } else
      o += s[i];
  }
  return o;
}

static uint64_t g_seed = 0;        // seed of this run (for case functions that re-execute themselves in a fresh process)
static std::string g_self;         // path of this executable
static int g_pipeFd = -1;
static volatile long long g_curCase = -1;
inline void onCpuTimeout(int) {
  char b[64];
  int n = snprintf(b, sizeof b, "T %lld\n", (long long)g_curCase);
  if (g_pipeFd >= 0) { ssize_t w = write(g_pipeFd, b, n); (void)w; }
  _exit(97);
}
inline void armTimer(double sec) {
  struct itimerval it;
  memset(&it, 0, sizeof it);
  it.it_value.tv_sec = (long)sec;
  it.it_value.tv_usec = (long)((sec - (long)sec) * 1e6);
  setitimer(ITIMER_PROF, &it, nullptr);
}
inline void disarmTimer() {
  struct itimerval it;
  memset(&it, 0, sizeof it);
  setitimer(ITIMER_PROF, &it, nullptr);
}

inline void writeAll(int fd, const std::string &s) {
  size_t off = 0;
  while (off < s.size()) {
    ssize_t w = write(fd, s.data() + off, s.size() - off);
    if (w < 0) { if (errno == EINTR) continue; _exit(96); }
    off += w;
  }
}

// Extract the first diagnostic block of a dead worker's stderr as (key, excerpt)
inline std::pair<std::string, std::string> classifyStderr(const std::string &text, int status) {
  std::istringstream ss(text);
  std::string line, key, excerpt;
  std::vector<std::string> lines;
  while (std::getline(ss, line)) lines.push_back(line);
  auto baseName = [](std::string p) {
    size_t k = p.find_last_of('/');
    return k == std::string::npos ? p : p.substr(k + 1);
  };
  for (size_t i = 0; i < lines.size() && key.empty(); ++i) {
    const std::string &l = lines[i];
    size_t p;
    if ((p = l.find("runtime error: ")) != std::string::npos) {
      // file:line:col: runtime error: kind ...
      std::string loc = l.substr(0, p);
      while (!loc.empty() && (loc.back() == ' ' || loc.back() == ':')) loc.pop_back();
      // strip column
      size_t c2 = loc.find_last_of(':');
      std::string fl = loc;
      if (c2 != std::string::npos) fl = loc.substr(0, c2);
      std::string kind = l.substr(p + 15);
      // keep words up to the first digit/quote/colon to get the kind
      std::string k2;
      for (char ch : kind) {
        if (ch == ':' || ch == '\'' || (ch >= '0' && ch <= '9') || ch == '-') break;
        k2 += (ch == ' ') ? '-' : ch;
      }
      while (!k2.empty() && k2.back() == '-') k2.pop_back();
      std::string where = baseName(fl);
      if (fl.find("/src/") == std::string::npos) {
        // report inside a system header: attribute to the first library frame of the stack trace
        for (size_t j = i + 1; j < lines.size() && j < i + 40; ++j) {
          size_t q = lines[j].find("/src/");
          if (q != std::string::npos && lines[j].find("#") != std::string::npos) {
            std::string w = lines[j].substr(q + 5);
            size_t c = w.find(':');
            if (c != std::string::npos) w = w.substr(0, c);
            where = baseName(w);
            break;
          }
        }
      } else {
        size_t c3 = where.find(':');
        if (c3 != std::string::npos) where = where.substr(0, c3);
      }
      key = "ubsan:" + k2 + ":" + where;
      // undefined behaviour located in the harness itself is a harness failure (exit 2), not a verdict on the library
      if (fl.find("/harness/") != std::string::npos) key = "harness:" + key;
    } else if ((p = l.find("ERROR: AddressSanitizer: ")) != std::string::npos) {
      std::string kind = l.substr(p + 25);
      size_t sp = kind.find(' ');
      if (sp != std::string::npos) kind = kind.substr(0, sp);
      // first frame inside the library sources
      std::string where;
      for (size_t j = i + 1; j < lines.size() && j < i + 40; ++j) {
        size_t q = lines[j].find("/src/");
        if (q != std::string::npos && lines[j].find("#") != std::string::npos) {
          std::string w = lines[j].substr(q + 5);
          size_t c = w.find(':');
          if (c != std::string::npos) w = w.substr(0, c);
          where = baseName(w);
          break;
        }
      }
      key = "asan:" + kind + ":" + where;
    } else if ((p = l.find("Assertion `")) != std::string::npos && l.find("failed") != std::string::npos) {
      // prog: file:line: func: Assertion `x' failed.
      std::string expr = l.substr(p + 11);
      size_t q = expr.find('\'');
      if (q != std::string::npos) expr = expr.substr(0, q);
      std::string pre = l.substr(0, p);
      // find "file:line:"
      std::string file;
      size_t c1 = pre.find(": ");
      if (c1 != std::string::npos) {
        std::string rest = pre.substr(c1 + 2);
        size_t c = rest.find(':');
        if (c != std::string::npos) file = baseName(rest.substr(0, c));
      }
      key = "assert:" + file + ":" + expr;
    } else if ((p = l.find("Assertion '")) != std::string::npos && l.find("failed") != std::string::npos) {
      // libstdc++ _GLIBCXX_ASSERTIONS: file:line: func: Assertion 'expr' failed.
      std::string expr = l.substr(p + 11);
      size_t q = expr.find('\'');
      if (q != std::string::npos) expr = expr.substr(0, q);
      std::string file = l.substr(0, l.find(':'));
      key = "glibcxx-assert:" + baseName(file) + ":" + expr;
    } else if (l.find("ThreadSanitizer: data race") != std::string::npos) {
      key = "tsan:data-race";
    } else if (l.find("terminate called") != std::string::npos) {
      key = "terminate";
      if (i + 1 < lines.size()) key += ":" + lines[i + 1].substr(0, 80);
    }
    if (!key.empty()) {
      for (size_t j = i; j < lines.size() && j < i + 30; ++j) excerpt += lines[j] + "\n";
    }
  }
  if (key.empty()) {
    if (WIFSIGNALED(status)) key = "signal:" + std::to_string(WTERMSIG(status));
    else key = "exit:" + std::to_string(WIFEXITED(status) ? WEXITSTATUS(status) : -1);
    size_t n = lines.size();
    for (size_t j = n > 15 ? n - 15 : 0; j < n; ++j) excerpt += lines[j] + "\n";
  }
  return {key, excerpt};
}

// Evaluate case idx of a part in a freshly executed process (no in-process history); returns false on failure
inline bool evalInFreshProcess(const std::string &part, uint64_t idx, std::string &out) {
  std::string cmd = "'" + g_self + "' --part '" + part + "' --seed " + std::to_string((unsigned long long)g_seed) + " --eval-case " + std::to_string((unsigned long long)idx) + " 2>/dev/null";
  FILE *f = popen(cmd.c_str(), "r");
  if (!f) return false;
  char *line = nullptr;
  size_t cap = 0;
  bool ok = false;
  while (getline(&line, &cap, f) > 0) {
    std::string l(line);
    if (l.rfind("EVAL ", 0) == 0) { out = l.substr(5); while (!out.empty() && (out.back() == '\n' || out.back() == '\r')) out.pop_back(); ok = true; }
  }
  free(line);
  int rc = pclose(f);
  return ok && rc == 0;
}

struct Agg {
  long long cases = 0, completed = 0, nontrivial = 0, inconclusive = 0, crashed = 0;
  std::set<std::string> sigs;
  std::map<std::string, long long> counters;
  std::vector<std::string> samples;
  struct V { std::string key, msg; long long idx; std::string sample; };
  std::vector<V> viol;
  std::vector<std::string> infra;
};

inline std::string readFile(const std::string &p) {
  std::ifstream f(p);
  std::stringstream ss;
  ss << f.rdbuf();
  return ss.str();
}

struct Options {
  std::string part, out, stderrDir = "/tmp";
  uint64_t seed = 1;
  long long cases = 0;
  int shard = 0, nshards = 1;
  long long replayCase = -1, dumpCase = -1, evalCase = -1;
  bool nofork = false;
  double budgetScale = 1.0;
};

// Run one case in-process (worker side)
inline void execCase(const Part &part, uint64_t seed, long long idx, CaseResult &r) {
  Rng rng(caseSeed(seed, part.name, (uint64_t)idx));
  part.fn((uint64_t)idx, rng, r);
}

inline std::string serializeResult(long long idx, const CaseResult &r) {
  std::string o = "E " + std::to_string(idx) + " " + (r.nontrivial ? "1" : "0") + " " + (r.inconclusive ? "1" : "0") + "\n";
  o += "S " + wesc(r.sig) + "\n";
  for (auto &c : r.counters) o += "C " + wesc(c.first) + "\x1f" + std::to_string(c.second) + "\n";
  for (auto &v : r.viol) o += "V " + wesc(v.key) + "\x1f" + wesc(v.msg) + "\n";
  if (!r.sample.empty() && (r.wantSample || !r.viol.empty())) o += "J " + wesc(r.sample) + "\n";
  o += ".\n";
  return o;
}

// Supervisor: runs the cases of this shard through forked workers
inline void supervise(const Part &part, const Options &opt, Agg &agg) {
  std::vector<long long> todo;
  for (long long i = opt.shard; i < opt.cases; i += opt.nshards) todo.push_back(i);
  agg.cases = (long long)todo.size();
  size_t pos = 0;
  int samplesWanted = 2;
  std::map<long long, int> timeouts;  // case -> number of firings
  double budget = part.cpuBudgetSec * opt.budgetScale;
  int respawns = 0;
  const double kSoloFactor = 8;
  int confirmedHangs = 0;
  while (pos < todo.size()) {
    int fds[2];
    if (pipe(fds) != 0) { agg.infra.push_back("pipe failed"); return; }
    char errPath[256];
    snprintf(errPath, sizeof errPath, "%s/vf_%s_%d_%d.err", opt.stderrDir.c_str(), part.name.c_str(), (int)getpid(), respawns);
    bool solo = timeouts.count(todo[pos]) && timeouts[todo[pos]] == 1;
    fflush(stdout);
    fflush(stderr);
    pid_t pid = fork();
    if (pid < 0) { agg.infra.push_back("fork failed"); return; }
    if (pid == 0) {
      close(fds[0]);
      g_pipeFd = fds[1];
      int dn = open("/dev/null", O_WRONLY);
      if (dn >= 0) dup2(dn, 1);
      int ef = open(errPath, O_WRONLY | O_CREAT | O_TRUNC, 0644);
      if (ef >= 0) dup2(ef, 2);
      signal(SIGPROF, onCpuTimeout);
      size_t end = solo ? pos + 1 : todo.size();
      for (size_t k = pos; k < end; ++k) {
        long long idx = todo[k];
        g_curCase = idx;
        writeAll(g_pipeFd, "B " + std::to_string(idx) + "\n");
        CaseResult r;
        r.wantSample = (int)(k - pos) < samplesWanted && respawns == 0;
        armTimer(solo ? budget * kSoloFactor : budget);
        try {
          execCase(part, opt.seed, idx, r);
        } catch (const std::exception &e) {
          disarmTimer();
          r.fail("harness-uncaught-exception", e.what());
        } catch (...) {
          disarmTimer();
          r.fail("uncaught-non-std-exception", "a non-std exception escaped the case function");
        }
        disarmTimer();
        writeAll(g_pipeFd, serializeResult(idx, r));
      }
      writeAll(g_pipeFd, "Q\n");
      _exit(0);
    }
    close(fds[1]);
    ++respawns;
    FILE *in = fdopen(fds[0], "r");
    char *lineBuf = nullptr;
    size_t cap = 0;
    long long inflight = -1;
    bool quit = false, timedOut = false;
    Agg::V *dummy = nullptr;
    (void)dummy;
    CaseResult cur;
    long long curIdx = -1;
    while (getline(&lineBuf, &cap, in) > 0) {
      std::string l(lineBuf);
      if (!l.empty() && l.back() == '\n') l.pop_back();
      if (l.empty()) continue;
      char t = l[0];
      std::string rest = l.size() > 2 ? l.substr(2) : "";
      if (t == 'B') {
        inflight = atoll(rest.c_str());
      } else if (t == 'E') {
        std::istringstream ss(rest);
        int nt, inc;
        ss >> curIdx >> nt >> inc;
        cur = CaseResult();
        cur.nontrivial = nt;
        cur.inconclusive = inc;
      } else if (t == 'S') {
        cur.sig = wunesc(rest);
      } else if (t == 'C') {
        size_t p = rest.find('\x1f');
        if (p != std::string::npos) cur.counters[wunesc(rest.substr(0, p))] += atoll(rest.substr(p + 1).c_str());
      } else if (t == 'V') {
        size_t p = rest.find('\x1f');
        if (p != std::string::npos) cur.viol.push_back({wunesc(rest.substr(0, p)), wunesc(rest.substr(p + 1))});
      } else if (t == 'J') {
        cur.sample = wunesc(rest);
      } else if (t == '.') {
        agg.completed++;
        if (cur.nontrivial) { agg.nontrivial++; agg.sigs.insert(cur.sig); }
        if (cur.inconclusive) agg.inconclusive++;
        for (auto &c : cur.counters) agg.counters[c.first] += c.second;
        for (auto &v : cur.viol) agg.viol.push_back({v.key, v.msg, curIdx, cur.sample});
        if (cur.viol.empty() && !cur.sample.empty() && agg.samples.size() < 3) agg.samples.push_back(cur.sample);
        inflight = -1;
        // advance pos past curIdx
        while (pos < todo.size() && todo[pos] <= curIdx) ++pos;
      } else if (t == 'T') {
        timedOut = true;
      } else if (t == 'Q') {
        quit = true;
      }
    }
    free(lineBuf);
    fclose(in);
    int status = 0;
    waitpid(pid, &status, 0);
    if (quit && !solo) { unlink(errPath); break; }
    if (solo && inflight < 0) { unlink(errPath); continue; }
    if (inflight >= 0) {
      if (timedOut) {
        int n = ++timeouts[inflight];
        if (n >= 2) {
          agg.crashed++;
          ++confirmedHangs;
          agg.viol.push_back({"hang", "case exceeded its CPU budget twice (" + std::to_string(budget) + " s, then alone with " + std::to_string(budget * kSoloFactor) + " s of CPU time): the call does not return", inflight, ""});
          while (pos < todo.size() && todo[pos] <= inflight) ++pos;
        } else if (confirmedHangs >= 1) {
          // a hang is already confirmed in this shard: the verdict is established, every further overrun would burn a whole
          // budget; the rest of the shard is not run (reported as not completed)
          agg.inconclusive++;
          agg.crashed++;
          agg.counters["shard_stopped_after_a_confirmed_hang"] += 1;
          unlink(errPath);
          break;
        }
        // else: retry the same case alone (pos unchanged); keep a trace of it in the evidence
        else { agg.counters["cases_rerun_alone_after_cpu_budget"] += 1; agg.counters["rerun_alone_case_" + std::to_string(inflight)] += 1; }
      } else {
        std::string text = readFile(errPath);
        auto ke = classifyStderr(text, status);
        agg.crashed++;
        agg.viol.push_back({ke.first, ke.second, inflight, ""});
        while (pos < todo.size() && todo[pos] <= inflight) ++pos;
      }
    } else if (!quit) {
      agg.infra.push_back("worker ended without reporting (status " + std::to_string(status) + ")");
      unlink(errPath);
      break;
    }
    unlink(errPath);
    if (respawns > 2000) { agg.infra.push_back("too many worker respawns"); break; }
    if (agg.viol.size() >= 60) break;  // enough witnesses: do not burn minutes on thousands of crashing cases
  }
}

inline std::string aggToJson(const Part &part, const Options &opt, const Agg &a, const std::string &variant) {
  J o = J::obj();
  o.kv("part", part.name).kv("variant", variant).kv("seed", (unsigned long long)opt.seed);
  o.kv("shard", opt.shard).kv("nshards", opt.nshards);
  o.kv("cases", a.cases).kv("completed", a.completed).kv("nontrivial", a.nontrivial).kv("inconclusive", a.inconclusive).kv("crashed", a.crashed);
  J sg = J::arr();
  for (auto &s : a.sigs) sg.v(s);
  o.kraw("sigs", sg.str());
  J c = J::obj();
  for (auto &kv : a.counters) c.kv(kv.first, kv.second);
  o.kraw("counters", c.str());
  J sm = J::arr();
  for (auto &s : a.samples) sm.raw(s);
  o.kraw("samples", sm.str());
  J vs = J::arr();
  for (auto &v : a.viol) {
    J x = J::obj();
    x.kv("key", v.key).kv("msg", v.msg).kv("case", v.idx);
    if (!v.sample.empty()) x.kraw("input", v.sample);
    vs.raw(x.str());
  }
  o.kraw("violations", vs.str());
  J inf = J::arr();
  for (auto &s : a.infra) inf.v(s);
  o.kraw("infra", inf.str());
  return o.str();
}

#ifndef VF_VARIANT
#define VF_VARIANT "unknown"
#endif

inline int runMain(int argc, char **argv, const std::vector<Part> &parts) {
  Options opt;
  for (int i = 1; i < argc; ++i) {
    std::string a = argv[i];
    auto nxt = [&]() -> std::string { return i + 1 < argc ? argv[++i] : ""; };
    if (a == "--part") opt.part = nxt();
    else if (a == "--seed") opt.seed = strtoull(nxt().c_str(), nullptr, 10);
    else if (a == "--cases") opt.cases = atoll(nxt().c_str());
    else if (a == "--shard") { std::string s = nxt(); sscanf(s.c_str(), "%d/%d", &opt.shard, &opt.nshards); }
    else if (a == "--out") opt.out = nxt();
    else if (a == "--replay-case") opt.replayCase = atoll(nxt().c_str());
    else if (a == "--dump-case") opt.dumpCase = atoll(nxt().c_str());
    else if (a == "--eval-case") opt.evalCase = atoll(nxt().c_str());
    else if (a == "--stderr-dir") opt.stderrDir = nxt();
    else if (a == "--budget-scale") opt.budgetScale = atof(nxt().c_str());
    else if (a == "--list-parts") { for (auto &p : parts) printf("%s\n", p.name.c_str()); return 0; }
    else { fprintf(stderr, "unknown argument %s\n", a.c_str()); return 2; }
  }
  const Part *part = nullptr;
  for (auto &p : parts) if (p.name == opt.part) part = &p;
  if (!part) { fprintf(stderr, "unknown part '%s'\n", opt.part.c_str()); return 2; }
  g_seed = opt.seed;
  {
    char buf[4096];
    ssize_t n = readlink("/proc/self/exe", buf, sizeof buf - 1);
    if (n > 0) { buf[n] = 0; g_self = buf; } else g_self = argv[0];
  }
  if (opt.evalCase >= 0) {
    // fresh-process evaluation of one case: prints "EVAL <string>" on the last line of stdout
    CaseResult r;
    r.evalOnly = true;
    int saved = dup(1);
    int dn = open("/dev/null", O_WRONLY);
    if (dn >= 0) dup2(dn, 1);  // the library prints progress on stdout
    execCase(*part, opt.seed, opt.evalCase, r);
    fflush(stdout);
    dup2(saved, 1);
    printf("EVAL %s\n", r.evalOut.c_str());
    return 0;
  }
  if (opt.dumpCase >= 0) {
    CaseResult r;
    r.dumpOnly = true;
    r.wantSample = true;
    execCase(*part, opt.seed, opt.dumpCase, r);
    printf("%s\n", r.sample.empty() ? "{}" : r.sample.c_str());
    return 0;
  }
  if (opt.replayCase >= 0) {
    CaseResult r;
    r.wantSample = true;
    r.verbose = true;
    execCase(*part, opt.seed, opt.replayCase, r);
    fprintf(stderr, "replay part=%s seed=%llu case=%lld nontrivial=%d sig=%s\n", part->name.c_str(),
            (unsigned long long)opt.seed, opt.replayCase, (int)r.nontrivial, r.sig.c_str());
    for (auto &v : r.viol) fprintf(stderr, "  VIOLATION-KEY %s : %s\n", v.key.c_str(), v.msg.c_str());
    if (!r.sample.empty()) fprintf(stderr, "  input: %s\n", r.sample.c_str());
    return r.viol.empty() ? 0 : 1;
  }
  Agg agg;
  supervise(*part, opt, agg);
  std::string js = aggToJson(*part, opt, agg, VF_VARIANT);
  if (opt.out.empty()) printf("%s\n", js.c_str());
  else {
    std::ofstream f(opt.out);
    f << js << "\n";
  }
  return agg.infra.empty() ? 0 : 2;
}

}  // namespace vf
