// C14: Transportation1d::solve / assign against lemon min-cost-flow and validity oracles; ASan watches the result vector
#include <lemon/network_simplex.h>
#include <lemon/smart_graph.h>

#include <climits>

#include "place_global/transportation_1d.hpp"
#include "vf.hpp"

using vf::CaseResult;
using vf::Rng;
typedef long long ll;

static ll lemonOpt(const std::vector<ll> &u, const std::vector<ll> &v, const std::vector<ll> &s, const std::vector<ll> &d) {
  using namespace lemon;
  SmartDigraph g;
  int S = (int)u.size(), K = (int)v.size();
  std::vector<SmartDigraph::Node> src(S), snk(K);
  for (auto &n : src) n = g.addNode();
  for (auto &n : snk) n = g.addNode();
  SmartDigraph::Node T = g.addNode();
  SmartDigraph::ArcMap<ll> c(g, 0), up(g, 0);
  SmartDigraph::NodeMap<ll> sup(g, 0);
  ll tot = 0;
  for (int i = 0; i < S; ++i) {
    sup[src[i]] = s[i];
    tot += s[i];
    for (int k = 0; k < K; ++k) {
      auto a = g.addArc(src[i], snk[k]);
      c[a] = std::llabs(u[i] - v[k]);
      up[a] = s[i];
    }
  }
  for (int k = 0; k < K; ++k) {
    auto a = g.addArc(snk[k], T);
    c[a] = 0;
    up[a] = d[k];
  }
  sup[T] = -tot;
  NetworkSimplex<SmartDigraph, ll, ll> ns(g);
  ns.costMap(c).upperMap(up).supplyMap(sup);
  auto r = ns.run();
  if (r != ns.OPTIMAL) return -1;
  return ns.totalCost<ll>();
}

static std::string pbStr(const std::vector<ll> &u, const std::vector<ll> &v, const std::vector<ll> &s, const std::vector<ll> &d) {
  return "source_pos=" + vf::jarr(u) + " sink_pos=" + vf::jarr(v) + " supply=" + vf::jarr(s) + " demand=" + vf::jarr(d);
}

static bool checkOneImpl(const std::vector<ll> &u, const std::vector<ll> &v, const std::vector<ll> &s, const std::vector<ll> &d, CaseResult &r, bool &usedBalance);
static bool checkOne(const std::vector<ll> &u, const std::vector<ll> &v, const std::vector<ll> &s, const std::vector<ll> &d, CaseResult &r, bool &usedBalance) {
  try {
    return checkOneImpl(u, v, s, d, r, usedBalance);
  } catch (const std::exception &e) {
    // total supply <= total demand holds here (balanceDemand was applied otherwise): the solver must return a plan
    r.fail("C14:solver-threw-on-a-valid-instance", std::string(e.what()) + ": " + pbStr(u, v, s, d));
    return false;
  }
}
static bool checkOneImpl(const std::vector<ll> &u, const std::vector<ll> &v, const std::vector<ll> &s, const std::vector<ll> &d, CaseResult &r, bool &usedBalance) {
  int S = (int)u.size(), K = (int)v.size();
  ll ts = 0, td = 0;
  for (auto x : s) ts += x;
  for (auto x : d) td += x;
  std::string desc = pbStr(u, v, s, d);
  Transportation1d pb(u, v, s, d);
  usedBalance = false;
  if (ts > td) { pb.balanceDemand(); usedBalance = true; }
  std::vector<ll> d2 = pb.sinkDemand();
  ll td2 = 0;
  for (auto x : d2) td2 += x;
  if (usedBalance) {
    if (td2 < ts) { r.fail("C14:balanceDemand-insufficient", desc); return false; }
    desc += " demand_after_balance=" + vf::jarr(d2);
  }
  auto sol = pb.solve();
  std::vector<ll> us(S, 0), ud(K, 0);
  ll cst = 0;
  for (auto [i, j, a] : sol) {
    if (i < 0 || i >= S || j < 0 || j >= K) { r.fail("C14:plan-index-out-of-range", desc); return false; }
    if (a <= 0) { r.fail("C14:plan-non-positive-entry", desc); return false; }
    us[i] += a;
    ud[j] += a;
    cst += a * std::llabs(u[i] - v[j]);
  }
  for (int i = 0; i < S; ++i) if (us[i] != s[i]) { r.fail("C14:supply-not-met", "source " + std::to_string(i) + " ships " + std::to_string(us[i]) + " of " + std::to_string(s[i]) + ": " + desc); return false; }
  for (int j = 0; j < K; ++j) if (ud[j] > d2[j]) { r.fail("C14:demand-exceeded", "sink " + std::to_string(j) + ": " + desc); return false; }
  ll opt = lemonOpt(u, v, s, d2);
  if (opt < 0) { r.inconclusive = true; return true; }
  if (opt != cst) { r.fail("C14:plan-not-minimum-cost", "plan cost " + std::to_string(cst) + " optimum " + std::to_string(opt) + ": " + desc); return false; }
  // rounded assignment
  std::vector<int> as = pb.assign();
  if ((int)as.size() != S) { r.fail("C14:assignment-length", "assign() returned " + std::to_string(as.size()) + " entries for " + std::to_string(S) + " sources: " + desc); return false; }
  bool anyPositive = false;
  for (auto x : d2) if (x > 0) anyPositive = true;
  if (anyPositive)
    for (int i = 0; i < S; ++i)
      if (as[i] < 0 || as[i] >= K || d2[as[i]] <= 0) { r.fail("C14:assignment-not-a-positive-demand-sink", "source " + std::to_string(i) + " -> " + std::to_string(as[i]) + ": " + desc); return false; }
  std::vector<int> cnt(S, 0), snkOf(S, -1);
  for (auto [i, j, a] : sol) { cnt[i]++; snkOf[i] = j; }
  for (int i = 0; i < S; ++i)
    if (cnt[i] == 1 && as[i] >= 0 && as[i] < K && v[as[i]] != v[snkOf[i]]) { r.fail("C14:unsplit-source-assigned-elsewhere", "source " + std::to_string(i) + " goes entirely to sink " + std::to_string(snkOf[i]) + " in the plan but is assigned to sink " + std::to_string(as[i]) + ": " + desc); return false; }
  return true;
}

// The solver class itself (sorted positions, positive supplies and demands): run() prepares all its state, so running the
// same object again must reproduce the same optimal plan and the same rounded assignment.
static bool checkSolverRerun(std::vector<ll> u, std::vector<ll> v, std::vector<ll> s, std::vector<ll> d, CaseResult &r) {
  std::sort(u.begin(), u.end());
  std::sort(v.begin(), v.end());
  for (auto &x : s) x = std::max<ll>(x, 1);
  for (auto &x : d) x = std::max<ll>(x, 1);
  ll ts = 0, td = 0;
  for (auto x : s) ts += x;
  for (auto x : d) td += x;
  if (ts > td) d.back() += ts - td;
  std::string desc = pbStr(u, v, s, d);
  try {
    std::vector<ll> u2 = u, v2 = v, s2 = s, d2 = d;
    Transportation1dSolver solver(std::move(u2), std::move(v2), std::move(s2), std::move(d2));
    solver.check();
    solver.run();
    auto sol1 = solver.computeSolution();
    auto as1 = solver.computeAssignment();
    int reruns = 2;
    for (int k = 0; k < reruns; ++k) {
      solver.run();
      auto sol2 = solver.computeSolution();
      auto as2 = solver.computeAssignment();
      if (sol2 != sol1) {
        ll c1 = 0, c2 = 0;
        for (auto [i, j, a] : sol1) c1 += a * std::llabs(u[i] - v[j]);
        for (auto [i, j, a] : sol2) c2 += a * std::llabs(u[i] - v[j]);
        r.fail("C14:second-run-of-the-solver-differs", "run " + std::to_string(k + 2) + " on the same solver object gives another plan (cost " + std::to_string(c2) + ", first run " + std::to_string(c1) + "): " + desc);
        return false;
      }
      if (as2 != as1) { r.fail("C14:second-run-of-the-solver-differs", "run " + std::to_string(k + 2) + " gives another rounded assignment: " + desc); return false; }
    }
    ll cst = 0;
    for (auto [i, j, a] : sol1) cst += a * std::llabs(u[i] - v[j]);
    ll opt = lemonOpt(u, v, s, d);
    if (opt >= 0 && opt != cst) { r.fail("C14:plan-not-minimum-cost", "solver object: plan cost " + std::to_string(cst) + " optimum " + std::to_string(opt) + ": " + desc); return false; }
    r.count("solver_objects_rerun");
  } catch (const std::exception &e) {
    r.fail("C14:solver-threw-on-a-valid-instance", std::string("solver object: ") + e.what() + ": " + desc);
    return false;
  }
  return true;
}

static void randomCase(Rng &rng, CaseResult &r, bool zeros) {
  int S = (int)rng.range(1, rng.chance(0.2) ? 40 : 6), K = (int)rng.range(1, rng.chance(0.2) ? 12 : 5);
  ll pmax = rng.chance(0.3) ? 5 : (rng.chance(0.5) ? 100 : 100000000);
  ll qmax = rng.chance(0.4) ? 3 : (rng.chance(0.5) ? 30 : 1000000);
  bool huge = rng.chance(0.1);
  if (huge) { qmax = 4000000000LL; pmax = std::min<ll>(pmax, 1000); }  // totals beyond 32 bits; positions small so that the 64-bit reference cost cannot overflow
  std::vector<ll> u(S), v(K), s(S), d(K);
  // positions on either side of the origin in half of the cases (placement areas left of / below the origin)
  ll shift = rng.chance(0.5) ? 0 : (rng.chance(0.5) ? pmax / 2 : rng.range(0, pmax + 3));
  for (auto &x : u) x = rng.range(0, pmax) - shift;
  for (auto &x : v) x = rng.range(0, pmax) - shift;
  if (rng.chance(0.2)) { std::sort(u.begin(), u.end()); std::sort(v.begin(), v.end()); }
  for (auto &x : s) x = (zeros && rng.chance(0.2)) ? 0 : rng.range(1, qmax);
  for (auto &x : d) x = (zeros && rng.chance(0.2)) ? 0 : rng.range(1, qmax);
  int bal = (int)rng.range(0, 3);
  ll ts = 0, td = 0;
  for (auto x : s) ts += x;
  for (auto x : d) td += x;
  if (bal == 0 && td > 0) {  // exact balance
    if (ts > td) d[rng.range(0, K - 1)] += ts - td; else s[rng.range(0, S - 1)] += td - ts;
  } else if (bal == 1 && ts > td) {  // slack
    d[rng.range(0, K - 1)] += ts - td + rng.range(0, qmax);
  }
  if (r.needSample()) r.sample = vf::J::obj().kraw("source_pos", vf::jarr(u)).kraw("sink_pos", vf::jarr(v)).kraw("supply", vf::jarr(s)).kraw("demand", vf::jarr(d)).str();
  if (r.dumpOnly) return;
  bool usedBalance = false;
  checkOne(u, v, s, d, r, usedBalance);
  if (r.viol.empty() && !huge && rng.chance(0.5)) checkSolverRerun(u, v, s, d, r);
  bool hasZero = false;
  for (auto x : s) if (x == 0) hasZero = true;
  for (auto x : d) if (x == 0) hasZero = true;
  r.nontrivial = S >= 2 && K >= 2;
  r.sig = "S" + std::to_string(std::min(S, 12)) + "K" + std::to_string(K) + "p" + std::to_string(pmax <= 5 ? 0 : pmax <= 100 ? 1 : 2) + "q" + std::to_string(qmax <= 3 ? 0 : qmax <= 30 ? 1 : 2) + (hasZero ? "z" : "-") + (usedBalance ? "b" : "-") + (huge ? "H" : "");
}

// exhaustive: <= 3 sources x <= 3 sinks, positions 0..2, supplies / demands 0..2. case = (S, K, positions) ; inner loop over all supply/demand vectors
static void exhaustiveCase(uint64_t idx0, CaseResult &r) {
  // 3 windows of positions: {0,1,2}, {-1,0,1}, {-3,-2,-1}
  static const uint64_t perWindow = 1521;
  int window = (int)(idx0 / perWindow);
  uint64_t idx = idx0 % perWindow;
  ll base = window == 0 ? 0 : window == 1 ? -1 : -3;
  int S = -1, K = -1;
  uint64_t rest = idx;
  bool found = false;
  for (int a = 1; a <= 3 && !found; ++a)
    for (int b = 1; b <= 3 && !found; ++b) {
      uint64_t cnt = 1;
      for (int i = 0; i < a + b; ++i) cnt *= 3;
      if (rest < cnt) { S = a; K = b; found = true; } else rest -= cnt;
    }
  if (!found) { r.sig = "none"; return; }
  std::vector<ll> u(S), v(K);
  for (auto &x : u) { x = base + (ll)(rest % 3); rest /= 3; }
  for (auto &x : v) { x = base + (ll)(rest % 3); rest /= 3; }
  r.sig = "u" + vf::jarr(u) + "v" + vf::jarr(v);
  if (r.needSample()) r.sample = vf::J::obj().kraw("source_pos", vf::jarr(u)).kraw("sink_pos", vf::jarr(v)).kv("what", "every supply and demand vector with entries 0..2").str();
  if (r.dumpOnly) return;
  uint64_t total = 1;
  for (int i = 0; i < S + K; ++i) total *= 3;
  long long n = 0;
  for (uint64_t code = 0; code < total; ++code) {
    std::vector<ll> s(S), d(K);
    uint64_t x = code;
    for (auto &y : s) { y = x % 3; x /= 3; }
    for (auto &y : d) { y = x % 3; x /= 3; }
    bool ub;
    ++n;
    if (!checkOne(u, v, s, d, r, ub)) break;
  }
  r.count("instances", n);
  r.nontrivial = S + K > 2;
}

int main(int argc, char **argv) {
  std::vector<vf::Part> parts;
  parts.push_back(vf::threaded("c14.threads", [](uint64_t, Rng &rng, CaseResult &r) { randomCase(rng, r, true); }, 4, 25, 120));
  parts.push_back({"c14.random", [](uint64_t, Rng &rng, CaseResult &r) { randomCase(rng, r, false); }, 10});
  parts.push_back({"c14.zeros", [](uint64_t, Rng &rng, CaseResult &r) { randomCase(rng, r, true); }, 10});
  parts.push_back({"c14.exhaustive", [](uint64_t idx, Rng &, CaseResult &r) { exhaustiveCase(idx, r); }, 20});
  return vf::runMain(argc, argv, parts);
}
