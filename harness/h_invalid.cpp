// C19: invalid inputs must be refused with a catchable error, before any work, without UB. One probe per case;
// every case runs in a forked worker of a sanitizer build, so an out-of-bounds read before the range check is attributed.
#include <climits>
#include <functional>

#include "circ.hpp"

using namespace coloquinte;
using namespace vfc;
using vf::CaseResult;
using vf::Rng;

static Circuit smallCircuit(Rng &rng);
static void effortProbe(int e, CaseResult &r) {
  bool valid = e >= 1 && e <= 9;
  if (r.needSample()) r.sample = vf::J::obj().kv("probe", "ColoquinteParameters(effort)").kv("effort", e).str();
  if (r.dumpOnly) return;
  bool threw = false;
  std::string what;
  try {
    ColoquinteParameters p(e);
    if (valid) {
      try { p.check(); } catch (const std::exception &ex) { r.fail("C19:valid-effort-fails-check", "effort " + std::to_string(e) + ": " + ex.what()); }
      ColoquinteParameters q(e, 42);
      q.check();
      if (q.seed != 42) r.fail("C19:seed-not-stored", "");
    }
  } catch (const std::exception &ex) {
    threw = true;
    what = ex.what();
  } catch (...) {
    r.fail("C19:non-std-exception", "effort " + std::to_string(e));
    threw = true;
  }
  if (valid && threw) r.fail("C19:valid-effort-rejected", "effort " + std::to_string(e) + ": " + what);
  if (!valid && !threw) r.fail("C19:invalid-effort-accepted", "effort " + std::to_string(e));
  // the entry points that take the effort itself (place, placeGlobal, legalize, placeDetailed with an int)
  {
    Rng crng(0x5eed ^ (uint64_t)(uint32_t)e);
    Circuit c0 = smallCircuit(crng);
    static const char *en[4] = {"place", "placeGlobal", "legalize", "placeDetailed"};
    for (int entry = 0; entry < 4; ++entry) {
      if (valid && entry < 2 && e > 3) continue;  // keep the window cheap: global placement only at low efforts here
      Circuit c = c0;
      bool t2 = false;
      try {
        if (entry == 0) c.place(e); else if (entry == 1) c.placeGlobal(e); else if (entry == 2) c.legalize(e); else c.placeDetailed(e);
      } catch (const std::exception &) {
        t2 = true;
      } catch (...) {
        r.fail("C19:non-std-exception", std::string(en[entry]) + "(" + std::to_string(e) + ")");
        t2 = true;
      }
      if (!valid && !t2) r.fail("C19:invalid-effort-accepted", std::string(en[entry]) + "(" + std::to_string(e) + ") returned");
      if (!valid && (!samePlacement(c0, c) || !frameDiff(c0, c, true).empty())) r.fail("C19:invalid-effort-did-work", std::string(en[entry]) + "(" + std::to_string(e) + ") modified the circuit");
      if (valid) r.count(t2 ? "int_effort_entry_threw" : "int_effort_entry_returned");
      else r.count("int_effort_entry_refused");
    }
  }
  r.nontrivial = true;
  r.sig = "e" + std::to_string(std::max(-17, std::min(33, e))) + (e < -16 ? "lo" : e > 32 ? "hi" : "");
}

struct BadParam {
  const char *name;
  std::function<void(ColoquinteParameters &)> set;
};
static std::vector<BadParam> badParams() {
  std::vector<BadParam> v;
#define BP(n, code) v.push_back({n, [](ColoquinteParameters &p) { code; }})
  BP("penalty.cutoffDistance=1e-7", p.global.penalty.cutoffDistance = 1e-7);
  BP("penalty.cutoffDistance=-1", p.global.penalty.cutoffDistance = -1);
  BP("penalty.cutoffDistanceUpdateFactor=0.79", p.global.penalty.cutoffDistanceUpdateFactor = 0.79);
  BP("penalty.cutoffDistanceUpdateFactor=1.21", p.global.penalty.cutoffDistanceUpdateFactor = 1.21);
  BP("penalty.areaExponent=0.48", p.global.penalty.areaExponent = 0.48);
  BP("penalty.areaExponent=1.02", p.global.penalty.areaExponent = 1.02);
  BP("penalty.initialValue=0", p.global.penalty.initialValue = 0);
  BP("penalty.initialValue=-1", p.global.penalty.initialValue = -1);
  BP("penalty.updateFactor=1.0", p.global.penalty.updateFactor = 1.0);
  BP("penalty.updateFactor=2.0", p.global.penalty.updateFactor = 2.0);
  BP("penalty.targetBlending=0.09", p.global.penalty.targetBlending = 0.09);
  BP("penalty.targetBlending=1.11", p.global.penalty.targetBlending = 1.11);
  BP("continuous.approximationDistance=1e-7", p.global.continuousModel.approximationDistance = 1e-7);
  BP("continuous.approximationDistance=1001", p.global.continuousModel.approximationDistance = 1001);
  BP("continuous.approximationDistanceUpdateFactor=0.79", p.global.continuousModel.approximationDistanceUpdateFactor = 0.79);
  BP("continuous.approximationDistanceUpdateFactor=1.21", p.global.continuousModel.approximationDistanceUpdateFactor = 1.21);
  BP("continuous.maxNbConjugateGradientSteps=0", p.global.continuousModel.maxNbConjugateGradientSteps = 0);
  BP("continuous.maxNbConjugateGradientSteps=-5", p.global.continuousModel.maxNbConjugateGradientSteps = -5);
  BP("continuous.conjugateGradientErrorTolerance=1e-9", p.global.continuousModel.conjugateGradientErrorTolerance = 1e-9);
  BP("continuous.conjugateGradientErrorTolerance=1.01", p.global.continuousModel.conjugateGradientErrorTolerance = 1.01);
  BP("rough.nbSteps=-1", p.global.roughLegalization.nbSteps = -1);
  BP("rough.binSize=0.99", p.global.roughLegalization.binSize = 0.99);
  BP("rough.binSize=25.1", p.global.roughLegalization.binSize = 25.1);
  BP("rough.lineReoptSize=0", p.global.roughLegalization.lineReoptSize = 0);
  BP("rough.diagReoptSize=0", p.global.roughLegalization.diagReoptSize = 0);
  BP("rough.squareReoptSize=0", p.global.roughLegalization.squareReoptSize = 0);
  BP("rough.lineReoptOverlap=0", p.global.roughLegalization.lineReoptOverlap = 0);
  BP("rough.diagReoptOverlap=0", p.global.roughLegalization.diagReoptOverlap = 0);
  BP("rough.squareReoptOverlap=0", p.global.roughLegalization.squareReoptOverlap = 0);
  BP("rough.lineReoptSize=65", p.global.roughLegalization.lineReoptSize = 65);
  BP("rough.diagReoptSize=65", p.global.roughLegalization.diagReoptSize = 65);
  BP("rough.squareReoptSize=9", p.global.roughLegalization.squareReoptSize = 9);
  BP("rough.all-sizes-1-no-1d", p.global.roughLegalization.lineReoptSize = 1; p.global.roughLegalization.diagReoptSize = 1; p.global.roughLegalization.squareReoptSize = 1; p.global.roughLegalization.unidimensionalTransport = false);
  BP("rough.all-sizes-1-not-L1", p.global.roughLegalization.lineReoptSize = 1; p.global.roughLegalization.diagReoptSize = 1; p.global.roughLegalization.squareReoptSize = 1; p.global.roughLegalization.costModel = LegalizationModel::L2);
  BP("rough.lineOverlap>=size", p.global.roughLegalization.lineReoptSize = 3; p.global.roughLegalization.lineReoptOverlap = 3);
  BP("rough.diagOverlap>=size", p.global.roughLegalization.diagReoptSize = 4; p.global.roughLegalization.diagReoptOverlap = 5);
  BP("rough.squareOverlap>=size", p.global.roughLegalization.squareReoptSize = 2; p.global.roughLegalization.squareReoptOverlap = 2);
  BP("rough.quadraticPenalty=-0.01", p.global.roughLegalization.quadraticPenalty = -0.01);
  BP("rough.quadraticPenalty=1.01", p.global.roughLegalization.quadraticPenalty = 1.01);
  BP("rough.targetBlending=-0.11", p.global.roughLegalization.targetBlending = -0.11);
  BP("rough.targetBlending=0.91", p.global.roughLegalization.targetBlending = 0.91);
  BP("global.maxNbSteps=-1", p.global.maxNbSteps = -1);
  BP("global.nbInitialSteps=-1", p.global.nbInitialSteps = -1);
  BP("global.nbInitialSteps>=maxNbSteps", p.global.maxNbSteps = 3; p.global.nbInitialSteps = 3);
  BP("global.nbStepsBeforeRoughLegalization=0", p.global.nbStepsBeforeRoughLegalization = 0);
  BP("global.gapTolerance=-0.01", p.global.gapTolerance = -0.01);
  BP("global.gapTolerance=1.01", p.global.gapTolerance = 1.01);
  BP("global.distanceTolerance=-0.1", p.global.distanceTolerance = -0.1);
  BP("global.exportBlending=-0.51", p.global.exportBlending = -0.51);
  BP("global.exportBlending=1.51", p.global.exportBlending = 1.51);
  BP("global.noise=-0.1", p.global.noise = -0.1);
  BP("global.noise=2.1", p.global.noise = 2.1);
  BP("global.penaltyUpdateDistance=0", p.global.penaltyUpdateDistance = 0);
  BP("global.penaltyUpdateBackoff=0.99", p.global.penaltyUpdateBackoff = 0.99);
  BP("legalization.costModel=L2", p.legalization.costModel = LegalizationModel::L2);
  BP("legalization.costModel=LInfSquared", p.legalization.costModel = LegalizationModel::LInfSquared);
  BP("legalization.orderingWidth=2.01", p.legalization.orderingWidth = 2.01);
  BP("legalization.orderingWidth=-1.01", p.legalization.orderingWidth = -1.01);
  BP("legalization.orderingY=0.21", p.legalization.orderingY = 0.21);
  BP("legalization.orderingY=-0.21", p.legalization.orderingY = -0.21);
  BP("detailed.nbPasses=-1", p.detailed.nbPasses = -1);
  BP("detailed.localSearchNbNeighbours=-1", p.detailed.localSearchNbNeighbours = -1);
  BP("detailed.localSearchNbRows=-1", p.detailed.localSearchNbRows = -1);
  BP("detailed.shiftNbRows=0", p.detailed.shiftNbRows = 0);
  BP("detailed.shiftMaxNbCells=-1", p.detailed.shiftMaxNbCells = -1);
  BP("detailed.reorderingNbRows=0", p.detailed.reorderingNbRows = 0);
  BP("detailed.reorderingMaxNbCells=-1", p.detailed.reorderingMaxNbCells = -1);
#undef BP
  return v;
}

static Circuit smallCircuit(Rng &rng) {
  GenOpts o = makeProfile(rng, "general");
  o.maxCells = 10;
  o.minRowWidth4H = true;
  return genCircuit(rng, o);
}

// apply a set of bad parameter assignments; every entry point must throw before touching the circuit
static void paramProbe(Rng &rng, CaseResult &r, const std::vector<int> &which, int entry) {
  static std::vector<BadParam> bad = badParams();
  Circuit c0 = smallCircuit(rng);
  ColoquinteParameters p((int)rng.range(1, 9));
  if (rng.chance(0.5)) genGlobalParams(rng, p, nullptr, 10);
  std::string names;
  for (int k : which) { bad[k].set(p); names += std::string(bad[k].name) + " "; }
  const char *en[3] = {"placeGlobal", "legalize", "placeDetailed"};
  if (r.needSample()) r.sample = vf::J::obj().kv("probe", "rejected parameters").kv("bad_fields", names).kv("entry", en[entry]).kraw("circuit", circuitJson(c0)).str();
  if (r.dumpOnly) return;
  bool rejected = false;
  try { p.check(); } catch (const std::exception &) { rejected = true; }
  if (!rejected) { r.fail("C19:bad-parameter-accepted-by-check", names); return; }
  Circuit c = c0;
  int ncb = 0;
  PlacementCallback cb = [&](PlacementStep) { ++ncb; };
  bool threw = false;
  try {
    if (entry == 0) c.placeGlobal(p, cb);
    else if (entry == 1) c.legalize(p, cb);
    else c.placeDetailed(p, cb);
  } catch (const std::exception &) {
    threw = true;
  } catch (...) {
    r.fail("C19:non-std-exception", names);
    threw = true;
  }
  if (!threw) r.fail("C19:rejected-parameters-but-call-returned", std::string(en[entry]) + " returned normally with " + names);
  if (ncb != 0) r.fail("C19:work-done-before-parameter-check", std::string(en[entry]) + " ran " + std::to_string(ncb) + " callbacks with " + names);
  std::string fd = frameDiff(c0, c, true);
  if (!fd.empty() || !samePlacement(c0, c)) r.fail("C19:circuit-modified-with-rejected-parameters", std::string(en[entry]) + ": " + (fd.empty() ? "placement changed" : fd) + " with " + names);
  r.nontrivial = true;
  r.sig = std::string(en[entry]) + ":" + (which.size() == 1 ? names : "combo" + std::to_string(which.size()));
}


// Randomised violation of ONE documented constraint on top of a random ACCEPTED parameter set: independent model of
// the ranges (taken from the documentation / messages of the parameter check), random distance beyond the bound.
static std::string violateOne(Rng &rng, ColoquinteParameters &p) {
  auto below = [&](double lo) { double d = std::max(std::fabs(lo), 1e-6) * std::pow(10.0, rng.unif(-2, 2)); return lo - std::max(d, 1e-3 * std::max(1.0, std::fabs(lo))); };
  auto above = [&](double hi) { double d = std::max(std::fabs(hi), 1e-6) * std::pow(10.0, rng.unif(-2, 2)); return hi + std::max(d, 1e-3 * std::max(1.0, std::fabs(hi))); };
  auto &g = p.global;
  auto &rl = g.roughLegalization;
  auto &cm = g.continuousModel;
  auto &pe = g.penalty;
  int k = (int)rng.range(0, 46);
  switch (k) {
    case 0: pe.cutoffDistance = rng.chance(0.5) ? 0.0 : -rng.unif(0, 10); return "penalty.cutoffDistance below 1e-6";
    case 1: pe.cutoffDistanceUpdateFactor = below(0.8); return "penalty.cutoffDistanceUpdateFactor < 0.8";
    case 2: pe.cutoffDistanceUpdateFactor = above(1.2); return "penalty.cutoffDistanceUpdateFactor > 1.2";
    case 3: pe.areaExponent = below(0.49); return "penalty.areaExponent < 0.49";
    case 4: pe.areaExponent = above(1.01); return "penalty.areaExponent > 1.01";
    case 5: pe.initialValue = rng.chance(0.5) ? 0.0 : -rng.unif(0, 5); return "penalty.initialValue <= 0";
    case 6: pe.updateFactor = rng.chance(0.3) ? 1.0 : below(1.0); return "penalty.updateFactor <= 1";
    case 7: pe.updateFactor = rng.chance(0.3) ? 2.0 : above(2.0); return "penalty.updateFactor >= 2";
    case 8: pe.targetBlending = below(0.1); return "penalty.targetBlending < 0.1";
    case 9: pe.targetBlending = above(1.1); return "penalty.targetBlending > 1.1";
    case 10: cm.approximationDistance = rng.chance(0.5) ? 0.0 : -rng.unif(0, 10); return "continuous.approximationDistance below 1e-6";
    case 11: cm.approximationDistance = above(1.0e3); return "continuous.approximationDistance > 1e3";
    case 12: cm.approximationDistanceUpdateFactor = below(0.8); return "continuous.approximationDistanceUpdateFactor < 0.8";
    case 13: cm.approximationDistanceUpdateFactor = above(1.2); return "continuous.approximationDistanceUpdateFactor > 1.2";
    case 14: cm.maxNbConjugateGradientSteps = -(int)rng.range(0, 1000); return "continuous.maxNbConjugateGradientSteps <= 0";
    case 15: cm.conjugateGradientErrorTolerance = rng.chance(0.5) ? 0.0 : 1e-8 * rng.unif(0, 0.9); return "continuous.conjugateGradientErrorTolerance < 1e-8";
    case 16: cm.conjugateGradientErrorTolerance = above(1.0); return "continuous.conjugateGradientErrorTolerance > 1";
    case 17: rl.nbSteps = -(int)rng.range(1, 100); return "rough.nbSteps < 0";
    case 18: rl.binSize = below(1.0); return "rough.binSize < 1";
    case 19: rl.binSize = above(25.0); return "rough.binSize > 25";
    case 20: rl.lineReoptSize = -(int)rng.range(0, 5); return "rough.lineReoptSize < 1";
    case 21: rl.diagReoptSize = -(int)rng.range(0, 5); return "rough.diagReoptSize < 1";
    case 22: rl.squareReoptSize = -(int)rng.range(0, 5); return "rough.squareReoptSize < 1";
    case 23: rl.lineReoptOverlap = -(int)rng.range(0, 5); return "rough.lineReoptOverlap < 1";
    case 24: rl.diagReoptOverlap = -(int)rng.range(0, 5); return "rough.diagReoptOverlap < 1";
    case 25: rl.squareReoptOverlap = -(int)rng.range(0, 5); return "rough.squareReoptOverlap < 1";
    case 26: rl.lineReoptSize = 64 + (int)rng.range(1, 100); rl.lineReoptOverlap = 1; return "rough.lineReoptSize > 64";
    case 27: rl.diagReoptSize = 64 + (int)rng.range(1, 100); rl.diagReoptOverlap = 1; return "rough.diagReoptSize > 64";
    case 28: rl.squareReoptSize = 8 + (int)rng.range(1, 20); rl.squareReoptOverlap = 1; return "rough.squareReoptSize > 8";
    case 29: rl.lineReoptSize = rl.diagReoptSize = rl.squareReoptSize = 1; if (rng.chance(0.5)) rl.unidimensionalTransport = false; else { rl.unidimensionalTransport = true; rl.costModel = (LegalizationModel)rng.range(1, 5); } return "rough: every reopt size 1 without L1 1-D transport";
    case 30: rl.lineReoptSize = (int)rng.range(2, 64); rl.lineReoptOverlap = rl.lineReoptSize + (int)rng.range(0, 5); return "rough.lineReoptOverlap >= lineReoptSize";
    case 31: rl.diagReoptSize = (int)rng.range(2, 64); rl.diagReoptOverlap = rl.diagReoptSize + (int)rng.range(0, 5); return "rough.diagReoptOverlap >= diagReoptSize";
    case 32: rl.squareReoptSize = (int)rng.range(2, 8); rl.squareReoptOverlap = rl.squareReoptSize + (int)rng.range(0, 5); return "rough.squareReoptOverlap >= squareReoptSize";
    case 33: rl.quadraticPenalty = rng.chance(0.5) ? below(0.0) : above(1.0); return "rough.quadraticPenalty outside [0,1]";
    case 34: rl.targetBlending = rng.chance(0.5) ? below(-0.1) : above(0.9); return "rough.targetBlending outside [-0.1,0.9]";
    case 35: g.maxNbSteps = -(int)rng.range(1, 100); return "global.maxNbSteps < 0";
    case 36: g.nbInitialSteps = -(int)rng.range(1, 100); return "global.nbInitialSteps < 0";
    case 37: g.nbInitialSteps = g.maxNbSteps + (int)rng.range(0, 10); return "global.nbInitialSteps >= maxNbSteps";
    case 38: g.nbStepsBeforeRoughLegalization = -(int)rng.range(0, 10); return "global.nbStepsBeforeRoughLegalization < 1";
    case 39: g.gapTolerance = rng.chance(0.5) ? below(0.0) : above(1.0); return "global.gapTolerance outside [0,1]";
    case 40: g.distanceTolerance = below(0.0); return "global.distanceTolerance < 0";
    case 41: g.exportBlending = rng.chance(0.5) ? below(-0.5) : above(1.5); return "global.exportBlending outside [-0.5,1.5]";
    case 42: g.noise = rng.chance(0.5) ? below(0.0) : above(2.0); return "global.noise outside [0,2]";
    case 43: if (rng.chance(0.5)) { g.penaltyUpdateDistance = rng.chance(0.5) ? 0.0 : -rng.unif(0, 10); return "global.penaltyUpdateDistance <= 0"; } g.penaltyUpdateBackoff = below(1.0); return "global.penaltyUpdateBackoff < 1";
    case 44: if (rng.chance(0.3)) { p.legalization.costModel = (LegalizationModel)rng.range(1, 5); return "legalization.costModel != L1"; }
             if (rng.chance(0.5)) { p.legalization.orderingWidth = rng.chance(0.5) ? below(-1.0) : above(2.0); return "legalization.orderingWidth outside [-1,2]"; }
             p.legalization.orderingY = rng.chance(0.5) ? below(-0.2) : above(0.2); return "legalization.orderingY outside [-0.2,0.2]";
    case 45: { int f = (int)rng.range(0, 2); int v = -(int)rng.range(1, 50); if (f == 0) { p.detailed.nbPasses = v; return "detailed.nbPasses < 0"; } if (f == 1) { p.detailed.localSearchNbNeighbours = v; return "detailed.localSearchNbNeighbours < 0"; } p.detailed.localSearchNbRows = v; return "detailed.localSearchNbRows < 0"; }
    default: { int f = (int)rng.range(0, 3); if (f == 0) { p.detailed.shiftNbRows = -(int)rng.range(0, 5); return "detailed.shiftNbRows < 1"; } if (f == 1) { p.detailed.shiftMaxNbCells = -(int)rng.range(1, 50); return "detailed.shiftMaxNbCells < 0"; } if (f == 2) { p.detailed.reorderingNbRows = -(int)rng.range(0, 5); return "detailed.reorderingNbRows < 1"; } p.detailed.reorderingMaxNbCells = -(int)rng.range(1, 50); return "detailed.reorderingMaxNbCells < 0"; }
  }
}

static void randomParamProbe(Rng &rng, CaseResult &r, int entry) {
  Circuit c0 = smallCircuit(rng);
  std::string pdesc, gdesc;
  ColoquinteParameters p = genParams(rng, true, &pdesc);
  genGlobalParams(rng, p, &gdesc, 10);
  const char *en[3] = {"placeGlobal", "legalize", "placeDetailed"};
  bool baseAccepted = true;
  try { p.check(); } catch (const std::exception &) { baseAccepted = false; }
  std::string what = violateOne(rng, p);
  if (r.needSample()) r.sample = vf::J::obj().kv("probe", "random accepted parameter set with one constraint violated").kv("violated", what).kv("entry", en[entry]).kv("base", pdesc + " | " + gdesc).kraw("circuit", circuitJson(c0)).str();
  if (r.dumpOnly) return;
  if (!baseAccepted) { r.count("base_set_not_accepted"); r.sig = "base-rejected"; return; }
  bool rejected = false;
  try { p.check(); } catch (const std::exception &) { rejected = true; }
  if (!rejected) r.fail("C19:out-of-range-parameter-accepted-by-check", what + " | base: " + gdesc);
  Circuit c = c0;
  int ncb = 0;
  PlacementCallback cb = [&](PlacementStep) { ++ncb; };
  bool threw = false;
  if (rejected || entry != 0) {  // with an accepted bad set global placement may not terminate: not attempted
    try {
      if (entry == 0) c.placeGlobal(p, cb);
      else if (entry == 1) c.legalize(p, cb);
      else c.placeDetailed(p, cb);
    } catch (const std::exception &) {
      threw = true;
    } catch (...) {
      r.fail("C19:non-std-exception", what);
      threw = true;
    }
    if (!threw) r.fail("C19:rejected-parameters-but-call-returned", std::string(en[entry]) + " returned normally with " + what);
    if (ncb != 0) r.fail("C19:work-done-before-parameter-check", std::string(en[entry]) + " ran " + std::to_string(ncb) + " callbacks with " + what);
    std::string fd = frameDiff(c0, c, true);
    if (!fd.empty() || !samePlacement(c0, c)) r.fail("C19:circuit-modified-with-rejected-parameters", std::string(en[entry]) + ": " + (fd.empty() ? "placement changed" : fd) + " with " + what);
  }
  r.nontrivial = true;
  r.sig = std::string(en[entry]) + ":" + what;
}

// wrong-length vectors for every setter, inconsistent / out-of-range nets
static void setterProbe(Rng &rng, CaseResult &r, uint64_t idx) {
  Circuit c0 = smallCircuit(rng);
  int n = c0.nbCells();
  int setter = (int)(idx % 12);
  int lenMode = (int)((idx / 12) % 3);
  int len = lenMode == 0 ? n - 1 : lenMode == 1 ? n + 1 : 0;
  if (len == n) len = n + 2;
  static const char *names[12] = {"setCellX", "setCellY", "setCellIsFixed", "setCellIsObstruction", "setCellRowPolarity", "setCellWidth", "setCellHeight", "setCellOrientation", "setSolution", "setNetWeights", "expandCellsByFactor", "meanDisruption"};
  if (r.needSample()) r.sample = vf::J::obj().kv("probe", "wrong-length vector").kv("setter", names[setter]).kv("cells", n).kv("length", len).str();
  if (r.dumpOnly) return;
  Circuit c = c0;
  bool threw = false;
  try {
    switch (setter) {
      case 0: c.setCellX(std::vector<int>(len, 1)); break;
      case 1: c.setCellY(std::vector<int>(len, 1)); break;
      case 2: c.setCellIsFixed(std::vector<bool>(len, true)); break;
      case 3: c.setCellIsObstruction(std::vector<bool>(len, true)); break;
      case 4: c.setCellRowPolarity(std::vector<CellRowPolarity>(len, CellRowPolarity::SAME)); break;
      case 5: c.setCellWidth(std::vector<int>(len, 1)); break;
      case 6: c.setCellHeight(std::vector<int>(len, 1)); break;
      case 7: c.setCellOrientation(std::vector<CellOrientation>(len, CellOrientation::S)); break;
      case 8: c.setSolution(PlacementSolution(len)); break;
      case 9: c.setNetWeights(std::vector<float>((size_t)std::max(0, c.nbNets() + (lenMode == 0 ? (c.nbNets() == 0 ? 1 : -1) : lenMode == 1 ? 1 : (c.nbNets() == 0 ? 2 : -c.nbNets()))), 1.0f)); break;
      case 10: c.expandCellsByFactor(std::vector<float>(len, 1.5f)); break;
      case 11: {
        // mean / rms / max displacement between two solutions: the wrong length in the first, the second or both arguments
        int which = (int)rng.range(0, 2), where = (int)rng.range(0, 2);
        PlacementSolution a = where == 1 ? c.solution() : PlacementSolution(len), b = where == 0 ? c.solution() : PlacementSolution(len);
        LegalizationModel lm = (LegalizationModel)rng.range(0, 5);
        if (which == 0) (void)c.meanDisruption(a, b, lm); else if (which == 1) (void)c.rmsDisruption(a, b, lm); else (void)c.maxDisruption(a, b, lm);
        break;
      }
    }
  } catch (const std::exception &) {
    threw = true;
  } catch (...) {
    r.fail("C19:non-std-exception", names[setter]);
    threw = true;
  }
  if (!threw) r.fail("C19:wrong-length-accepted", std::string(names[setter]) + " accepted a vector of length " + std::to_string(len) + " for " + std::to_string(n) + " cells");
  std::string fd = frameDiff(c0, c, true);
  if (!fd.empty() || !samePlacement(c0, c)) r.fail("C19:circuit-modified-by-refused-setter", std::string(names[setter]) + ": " + (fd.empty() ? "placement changed" : fd));
  try { c.check(); } catch (const std::exception &e) { r.fail("C19:circuit-inconsistent-after-refused-setter", e.what()); }
  r.nontrivial = true;
  r.sig = std::string(names[setter]) + ":" + std::to_string(lenMode);
}

static void netProbe(Rng &rng, CaseResult &r, uint64_t idx) {
  Circuit c0 = smallCircuit(rng);
  int n = c0.nbCells();
  int kind = (int)(idx % 8);       // what is wrong with the net
  int api = (int)((idx / 8) % 2);  // addNet / setNets
  int follow = (int)((idx / 16) % 6);
  static const char *kn[8] = {"cells-longer", "x-offsets-longer", "y-offsets-shorter", "pin-cell=-1", "pin-cell=n", "pin-cell=INT_MAX", "pin-cell=INT_MIN", "limits-inconsistent"};
  static const char *fn[6] = {"check", "hpwl", "legalize", "placeGlobal", "placeDetailed", "report"};
  if (r.needSample()) r.sample = vf::J::obj().kv("probe", "malformed net").kv("defect", kn[kind]).kv("api", api == 0 ? "addNet" : "setNets").kv("followed_by", fn[follow]).kv("cells", n).str();
  if (r.dumpOnly) return;
  std::vector<int> cells = {0, std::min(1, n - 1), 0}, xo = {0, 1, 2}, yo = {0, 1, 2};
  std::vector<int> limits = {0, 3};
  std::vector<float> weights = {1.0f};
  if (kind == 0) cells.push_back(0);
  else if (kind == 1) xo.push_back(0);
  else if (kind == 2) yo.pop_back();
  else if (kind == 3) cells[1] = -1;
  else if (kind == 4) cells[1] = n;
  else if (kind == 5) cells[1] = INT_MAX;
  else if (kind == 6) cells[1] = INT_MIN;
  else { if (api == 0) { xo.push_back(1); } else { int v = (int)rng.range(0, 3); if (v == 0) limits = {0, 2}; else if (v == 1) limits = {1, 3}; else if (v == 2) limits = {0, 3, 2}; else weights = {1.0f, 2.0f, 3.0f}; } }
  Circuit c = c0;
  bool refused = false;
  try {
    if (api == 0) c.addNet(cells, xo, yo, 1.0f);
    else c.setNets(limits, cells, xo, yo, weights);
  } catch (const std::exception &) {
    refused = true;
  } catch (...) {
    r.fail("C19:non-std-exception", kn[kind]);
    refused = true;
  }
  if (refused) {
    std::string fd = frameDiff(c0, c, true);
    if (!fd.empty()) r.fail("C19:circuit-modified-by-refused-net", std::string(kn[kind]) + ": " + fd);
    r.count("refused_at_the_setter");
  } else {
    // accepted: the error must be raised by the next operation, before any placement work, without UB
    r.count("accepted_by_the_setter");
    Circuit before = c;
    bool threw = false;
    int ncb = 0;
    PlacementCallback cb = [&](PlacementStep) { ++ncb; };
    ColoquinteParameters p(2);
    p.global.maxNbSteps = 3;
    try {
      switch (follow) {
        case 0: c.check(); break;
        case 1: (void)c.hpwl(); break;
        case 2: c.legalize(p, cb); break;
        case 3: c.placeGlobal(p, cb); break;
        case 4: c.placeDetailed(p, cb); break;
        case 5: (void)c.report(); break;
      }
    } catch (const std::exception &) {
      threw = true;
    } catch (...) {
      r.fail("C19:non-std-exception", fn[follow]);
      threw = true;
    }
    if (!threw) r.fail("C19:malformed-net-never-refused", std::string(api == 0 ? "addNet" : "setNets") + " accepted a net with " + kn[kind] + " and " + fn[follow] + " did not raise an error either");
    if (ncb) r.fail("C19:placement-work-on-malformed-net", std::string(fn[follow]) + " ran callbacks");
    if (!samePlacement(before, c)) r.fail("C19:placement-work-on-malformed-net", std::string(fn[follow]) + " changed the placement");
  }
  r.nontrivial = true;
  r.sig = std::string(kn[kind]) + ":" + (api == 0 ? "addNet" : "setNets") + ":" + fn[follow];
}

// placeDetailed legalizes first, reports that state to the callback, and validates the parameter set again before the
// optimisation starts. A callback that writes a rejected value into the caller's parameter object at that point must see the
// call refused with a catchable error, not the value used.
static void midCallParamProbe(Rng &rng, CaseResult &r, uint64_t idx) {
  static std::vector<BadParam> bad = badParams();
  Circuit c0 = smallCircuit(rng);
  ColoquinteParameters p((int)rng.range(1, 9));
  int which = (int)(idx % bad.size());
  if (r.needSample()) r.sample = vf::J::obj().kv("probe", "parameter object modified by the first callback of placeDetailed").kv("bad_field", bad[which].name).kraw("circuit", circuitJson(c0)).str();
  if (r.dumpOnly) return;
  Circuit c = c0;
  int ncb = 0;
  PlacementCallback cb = [&](PlacementStep) { if (++ncb == 1) bad[which].set(p); };
  bool threw = false, legalizeFailed = false;
  try {
    c.placeDetailed(p, cb);
  } catch (const std::exception &e) {
    threw = true;
    if (ncb == 0) legalizeFailed = true;
  } catch (...) {
    r.fail("C19:non-std-exception", bad[which].name);
    threw = true;
  }
  if (legalizeFailed) { r.sig = "legalize-failed"; return; }
  if (!threw) r.fail("C19:rejected-parameters-but-call-returned", std::string("placeDetailed returned normally although its first callback had set ") + bad[which].name + " in the parameter object it was given");
  if (ncb > 1) r.fail("C19:placement-work-with-rejected-parameters", std::string("callbacks of the optimisation ran after the parameter object had been given ") + bad[which].name);
  r.count("midcall_refused");
  r.nontrivial = true;
  r.sig = std::string("midcall:") + bad[which].name;
}

// A rejected parameter set leaves the circuit unmodified - also its pending-update state. Inside a callback of a running call the
// circuit is resized (permitted), then a nested placement call with rejected parameters is made and its exception swallowed. The
// outer call must end exactly as it does without that nested, refused call.
static void nestedRejectedProbe(Rng &rng, CaseResult &r, uint64_t idx) {
  static std::vector<BadParam> bad = badParams();
  Circuit c0 = smallCircuit(rng);
  ColoquinteParameters p((int)rng.range(1, 4));
  p.global.maxNbSteps = 3;
  ColoquinteParameters q = p;
  int which = (int)(idx % bad.size());
  bad[which].set(q);
  int outer = (int)rng.range(0, 2), inner = (int)rng.range(0, 2), what = (int)rng.range(0, 2);
  static const char *sn[3] = {"placeGlobal", "legalize", "placeDetailed"};
  if (r.needSample()) r.sample = vf::J::obj().kv("probe", "nested call with rejected parameters inside a callback after a permitted update").kv("outer", sn[outer]).kv("nested", sn[inner]).kv("bad_field", bad[which].name).kraw("circuit", circuitJson(c0)).str();
  if (r.dumpOnly) return;
  bool callbackRan = false;
  auto run = [&](bool nested, Circuit &c, std::string &err, bool &innerThrew) -> bool {
    int ncb = 0;
    innerThrew = false;
    PlacementCallback cb = [&](PlacementStep) {
      if (++ncb != 1) return;
      callbackRan = true;
      if (what == 0) c.setCellWidth(std::vector<int>(c.cellWidth_)); else if (what == 1) c.setCellHeight(std::vector<int>(c.cellHeight_)); else c.setNetWeights(std::vector<float>(c.netWeights_));
      if (!nested) return;
      try { if (inner == 0) c.placeGlobal(q); else if (inner == 1) c.legalize(q); else c.placeDetailed(q); } catch (const std::exception &) { innerThrew = true; }
    };
    try {
      if (outer == 0) c.placeGlobal(p, cb); else if (outer == 1) c.legalize(p, cb); else c.placeDetailed(p, cb);
      return true;
    } catch (const std::exception &e) { err = e.what(); return false; }
  };
  Circuit a = c0, b = c0;
  std::string ea, eb;
  bool ta, tb;
  bool oka = run(false, a, ea, ta), okb = run(true, b, eb, tb);
  if (!callbackRan) { r.sig = "no-callback"; return; }  // the outer call ended before its first callback
  if (!tb) { r.fail("C19:rejected-parameters-but-call-returned", std::string("nested ") + sn[inner] + " with " + bad[which].name + " did not throw"); return; }
  if (oka != okb || ea != eb) r.fail("C19:rejected-call-changed-the-pending-update-state", std::string(sn[outer]) + " with a resizing callback " + (oka ? "returns" : "throws '" + ea + "'") + "; with an additional nested " + sn[inner] + " refused for " + bad[which].name + " it " + (okb ? "returns" : "throws '" + eb + "'"));
  else if (!samePlacement(a, b)) r.fail("C19:rejected-call-changed-the-pending-update-state", std::string(sn[outer]) + ": the result differs when a nested call with rejected parameters was made (and refused) inside a callback");
  r.count(oka ? "outer_returned" : "outer_threw");
  r.nontrivial = true;
  r.sig = std::string("nested:") + sn[outer] + ":" + sn[inner] + ":" + std::to_string(what);
}

// A valid multi-net description (limits / cells / offsets / weights), corrupted in one randomly chosen way; every vector is
// exactly sized so that ASan sees any read past its end during validation.
static void netStructureProbe(Rng &rng, CaseResult &r) {
  Circuit c0 = smallCircuit(rng);
  int n = c0.nbCells();
  int nets = (int)rng.range(1, 7);
  std::vector<int> limits = {0}, cells, xo, yo;
  std::vector<float> weights;
  for (int k = 0; k < nets; ++k) {
    int deg = (int)rng.range(0, 5);
    for (int j = 0; j < deg; ++j) { cells.push_back((int)rng.range(0, n - 1)); xo.push_back((int)rng.range(-3, 9)); yo.push_back((int)rng.range(-3, 9)); }
    limits.push_back((int)cells.size());
    weights.push_back(rng.chance(0.5) ? 1.0f : (float)rng.unif(0.1, 4.0));
  }
  int pins = (int)cells.size();
  int kind = (int)rng.range(0, 16);
  std::string what;
  int interior = nets >= 2 ? (int)rng.range(1, nets - 1) : -1;  // index of an interior limit
  switch (kind) {
    case 0: if (interior < 0) { kind = 4; limits.back() += 1; what = "last limit above the pin count"; break; }
            limits[interior] = pins + (int)rng.range(1, 6); what = "interior limit above the pin count"; break;
    case 1: if (interior < 0) { kind = 4; limits.back() += 1; what = "last limit above the pin count"; break; }
            limits[interior] = (int)rng.pick(std::vector<int>{INT_MAX, 50000000, 1 << 20}); what = "huge interior limit"; break;
    case 2: if (interior < 0) { kind = 5; limits[0] = 1; what = "first limit not zero"; break; }
            limits[interior] = (int)rng.pick(std::vector<int>{-1, -7, INT_MIN}); what = "negative interior limit"; break;
    case 3: if (interior < 0 || limits[interior] == 0 || limits[interior - 1] >= limits[interior]) { limits.back() -= 1; if (limits.back() < 0) limits.back() = 5; what = "last limit differs from the pin count"; break; }
            limits[interior - 1] = limits[interior] + (int)rng.range(1, 3); what = "decreasing limits"; break;
    case 4: limits.back() += (int)rng.range(1, 4); what = "last limit above the pin count"; break;
    case 5: limits[0] = (int)rng.pick(std::vector<int>{1, -1, 2}); what = "first limit not zero"; break;
    case 6: limits.clear(); what = "no limits at all"; break;
    case 7: weights.push_back(1.0f); what = "one weight too many"; break;
    case 8: if (weights.size() > 1) { weights.pop_back(); what = "one weight too few"; } else { weights.push_back(2.0f); what = "one weight too many"; } break;
    case 9: xo.push_back(0); what = "x offsets longer than cells"; break;
    case 10: if (pins > 0) { yo.pop_back(); what = "y offsets shorter than cells"; } else { yo.push_back(0); what = "y offsets longer than cells"; } break;
    case 11: if (pins > 0) { cells[rng.range(0, pins - 1)] = (int)rng.pick(std::vector<int>{-1, n, n + 7, INT_MAX, INT_MIN}); what = "pin names a cell that does not exist"; } else { cells.push_back(0); what = "cells longer than the last limit"; } break;
    case 12: cells.push_back(0); xo.push_back(0); yo.push_back(0); what = "one pin more than the last limit"; break;
    case 13: limits.push_back(pins - 1 >= 0 ? pins - 1 : 3); what = "trailing limit below the pin count"; break;
    case 14: { int k = (int)rng.range(1, 3); for (int j = 0; j < k; ++j) { xo.push_back(0); yo.push_back(0); } what = "both offset vectors longer than cells by the same amount"; break; }
    case 15: if (pins > 0) { int k = (int)rng.range(1, pins); xo.resize(pins - k); yo.resize(pins - k); what = "both offset vectors shorter than cells by the same amount"; } else { xo.push_back(1); yo.push_back(1); what = "both offset vectors longer than cells by the same amount"; } break;
    default: cells.push_back(0); limits.back() += 1; what = "a pin added to limits and cells but to neither offset vector"; break;
  }
  limits.shrink_to_fit(); cells.shrink_to_fit(); xo.shrink_to_fit(); yo.shrink_to_fit(); weights.shrink_to_fit();
  if (r.needSample()) r.sample = vf::J::obj().kv("probe", "corrupted net structure").kv("defect", what).kraw("limits", vf::jarr(limits)).kraw("cells", vf::jarr(cells)).kv("x_offsets", (int)xo.size()).kv("y_offsets", (int)yo.size()).kv("weights", (int)weights.size()).kv("circuit_cells", n).str();
  if (r.dumpOnly) return;
  Circuit c = c0;
  bool refused = false;
  try {
    c.setNets(limits, cells, xo, yo, weights);
  } catch (const std::exception &) {
    refused = true;
  } catch (...) {
    r.fail("C19:non-std-exception", what);
    refused = true;
  }
  if (refused) {
    std::string fd = frameDiff(c0, c, true);
    if (!fd.empty()) r.fail("C19:circuit-modified-by-refused-net", what + ": " + fd);
    r.count("refused_at_the_setter");
  } else {
    r.count("accepted_by_the_setter");
    // accepted: the very next operation, whichever it is, must raise the error (and must not run into undefined behaviour)
    bool threw = false;
    int follow = (int)rng.range(0, 4);
    static const char *fn[5] = {"check", "hpwl", "legalize", "placeGlobal", "report"};
    ColoquinteParameters p2(2);
    p2.global.maxNbSteps = 2;
    try {
      if (follow == 0) c.check(); else if (follow == 1) (void)c.hpwl(); else if (follow == 2) c.legalize(p2); else if (follow == 3) c.placeGlobal(p2); else (void)c.report();
    } catch (const std::exception &) { threw = true; } catch (...) { r.fail("C19:non-std-exception", what); threw = true; }
    if (!threw) r.fail("C19:malformed-net-never-refused", "setNets accepted a net structure with " + what + " and " + fn[follow] + " did not raise an error either");
  }
  r.nontrivial = true;
  r.sig = what + ":n" + std::to_string(std::min(nets, 4));
}

int main(int argc, char **argv) {
  std::vector<vf::Part> parts;
  parts.push_back({"c19.params.nested", [](uint64_t idx, Rng &rng, CaseResult &r) { nestedRejectedProbe(rng, r, idx); }, 60});
  parts.push_back({"c19.params.midcall", [](uint64_t idx, Rng &rng, CaseResult &r) { midCallParamProbe(rng, r, idx); }, 60});
  parts.push_back({"c19.nets.structure", [](uint64_t, Rng &rng, CaseResult &r) { netStructureProbe(rng, r); }, 30});
  parts.push_back({"c19.effort.window", [](uint64_t idx, Rng &, CaseResult &r) { effortProbe((int)idx - 16, r); }, 30});
  parts.push_back({"c19.effort.random", [](uint64_t idx, Rng &rng, CaseResult &r) {
                     int e;
                     if (idx == 0) e = INT_MIN; else if (idx == 1) e = INT_MAX; else if (idx == 2) e = INT_MIN + 1; else if (idx == 3) e = -1; else if (idx < 40) e = (int)rng.range(-100000, 100000); else e = (int)(uint32_t)rng.next();
                     effortProbe(e, r);
                   }, 30});
  parts.push_back({"c19.params.single", [](uint64_t idx, Rng &rng, CaseResult &r) {
                     static size_t nb = badParams().size();
                     paramProbe(rng, r, {(int)((idx / 3) % nb)}, (int)(idx % 3));
                   }, 60});
  parts.push_back({"c19.params.combo", [](uint64_t idx, Rng &rng, CaseResult &r) {
                     static size_t nb = badParams().size();
                     std::vector<int> which;
                     int k = (int)rng.range(2, 5);
                     for (int i = 0; i < k; ++i) which.push_back((int)rng.range(0, (long long)nb - 1));
                     paramProbe(rng, r, which, (int)(idx % 3));
                   }, 60});
  parts.push_back({"c19.params.random", [](uint64_t idx, Rng &rng, CaseResult &r) { randomParamProbe(rng, r, (int)(idx % 3)); }, 60});
  parts.push_back({"c19.setters", [](uint64_t idx, Rng &rng, CaseResult &r) { setterProbe(rng, r, idx); }, 30});
  parts.push_back({"c19.nets", [](uint64_t idx, Rng &rng, CaseResult &r) { netProbe(rng, r, idx); }, 30});
  if (argc == 2 && std::string(argv[1]) == "--count-bad-params") { printf("%zu\n", badParams().size()); return 0; }
  return vf::runMain(argc, argv, parts);
}
