// C09: Circuit::hpwl / pin-offset transforms against the DEF reference, and IncrNetModel against a
// from-scratch 1-D HPWL over arbitrary update histories and cell subsets.
#include <climits>
#include "circ.hpp"
#include "place_detailed/incr_net_model.hpp"

using namespace coloquinte;
using namespace vfc;
using vf::CaseResult;
using vf::Rng;

static Circuit randomPlacedCircuit(Rng &rng, std::string &desc) {
  GenOpts o = makeProfile(rng, rng.chance(0.5) ? "nets" : "general");
  if (rng.chance(0.2)) o.scale = (int)rng.pick(std::vector<int>{10, 100, 1000});
  o.maxNets = (int)rng.pick(std::vector<int>{0, 3, 10, 40});
  Circuit c = genCircuit(rng, o);
  // arbitrary placement: any orientation on any cell (also fixed ones), any position
  for (int i = 0; i < c.nbCells(); ++i) {
    if (rng.chance(0.8)) c.cellOrientation_[i] = ALL8[rng.range(0, 7)];
    if (rng.chance(0.5)) { c.cellX_[i] = (int)rng.range(-300, 300) * o.scale; c.cellY_[i] = (int)rng.range(-300, 300) * o.scale; }
  }
  // a few extra nets: empty-ish, single pin, repeated cells, pins far outside the outline
  int extra = (int)rng.range(0, 4);
  for (int k = 0; k < extra; ++k) {
    int deg = (int)rng.range(1, 5);
    std::vector<int> cells, xo, yo;
    int rep = (int)rng.range(0, c.nbCells() - 1);
    for (int j = 0; j < deg; ++j) {
      cells.push_back(rng.chance(0.5) ? rep : (int)rng.range(0, c.nbCells() - 1));
      xo.push_back((int)rng.range(-1000, 1000));
      yo.push_back((int)rng.range(-1000, 1000));
    }
    c.addNet(cells, xo, yo, 1.0f);
  }
  if (rng.chance(0.15)) {
    // high-fanout nets in which a few cells own many pins
    int big = (int)rng.range(1, 3);
    for (int k = 0; k < big; ++k) {
      int deg = rng.chance(0.4) ? (int)rng.range(100, 220) : (int)rng.range(20, 99);
      std::vector<int> cells, xo, yo, pool;
      for (int j = 0; j < 3; ++j) pool.push_back((int)rng.range(0, c.nbCells() - 1));
      for (int j = 0; j < deg; ++j) {
        cells.push_back(rng.chance(0.3) ? pool[rng.range(0, 2)] : (int)rng.range(0, c.nbCells() - 1));
        xo.push_back((int)rng.range(-400, 400));
        yo.push_back((int)rng.range(-400, 400));
      }
      c.addNet(cells, xo, yo, 1.0f);
    }
  }
  if (rng.chance(0.25)) {  // far from the origin: beyond what a 24-bit float mantissa holds
    auto pick = [&]() { long long m = rng.range(1LL << 24, 1LL << 28); return (int)(rng.chance(0.5) ? m : -m); };
    int dx = pick(), dy = pick();
    for (int i = 0; i < c.nbCells(); ++i) { c.cellX_[i] += dx; c.cellY_[i] += dy; }
    desc = "translated";
  } else desc = "scale=" + std::to_string(o.scale);
  return c;
}

static void hpwlCase(Rng &rng, CaseResult &r) {
  std::string desc;
  Circuit c = randomPlacedCircuit(rng, desc);
  if (r.needSample()) r.sample = vf::J::obj().kv("what", "hpwl and per-pin transforms").kraw("circuit", circuitJson(c)).str();
  if (r.dumpOnly) return;
  std::set<int> orients;
  long long pins = 0;
  for (int n = 0; n < c.nbNets(); ++n)
    for (int j = 0; j < c.nbPinsNet(n); ++j) {
      int cell = c.pinCell(n, j);
      long long px, py;
      int p = c.netLimits_[n] + j;
      refPinOffset(c.cellOrientation_[cell], c.cellWidth_[cell], c.cellHeight_[cell], c.pinXOffsets_[p], c.pinYOffsets_[p], px, py);
      ++pins;
      orients.insert((int)c.cellOrientation_[cell]);
      if (c.pinXOffset(n, j) != px || c.pinYOffset(n, j) != py) {
        std::ostringstream m;
        m << "net " << n << " pin " << j << " cell " << cell << " orientation " << oname(c.cellOrientation_[cell]) << " size " << c.cellWidth_[cell] << "x" << c.cellHeight_[cell] << " stored offset ("
          << c.pinXOffsets_[p] << "," << c.pinYOffsets_[p] << "): library (" << c.pinXOffset(n, j) << "," << c.pinYOffset(n, j) << ") reference (" << px << "," << py << ")";
        r.fail("C09:pin-offset-transform", m.str());
      }
    }
  for (int i = 0; i < c.nbCells(); ++i)
    if (c.placedWidth(i) != pW(c, i) || c.placedHeight(i) != pH(c, i)) r.fail("C09:placed-size", "cell " + std::to_string(i) + " orientation " + oname(c.cellOrientation_[i]));
  long long h = c.hpwl(), ref = refHpwl(c);
  if (h != ref) r.fail("C09:hpwl-differs-from-reference", "Circuit::hpwl()=" + std::to_string(h) + " reference=" + std::to_string(ref));
  r.count("pins_checked", pins);
  r.nontrivial = pins > 0;
  std::string os;
  for (int o : orients) os += std::to_string(o);
  r.sig = "o" + os + "n" + std::to_string(std::min(c.nbNets() / 3, 9)) + "h" + std::to_string(h % 7);
}

// from-scratch 1-D wirelength: subset cells at model positions, the others at their circuit position
static long long scratch1d(const Circuit &c, bool xAxis, const std::vector<int> &subset, const std::vector<int> &pos) {
  std::map<int, int> idx;
  for (size_t i = 0; i < subset.size(); ++i) idx[subset[i]] = (int)i;
  long long tot = 0;
  for (int n = 0; n < c.nbNets(); ++n) {
    long long mn = LLONG_MAX, mx = LLONG_MIN;
    for (int p = c.netLimits_[n]; p < c.netLimits_[n + 1]; ++p) {
      int cell = c.pinCells_[p];
      long long px, py;
      refPinOffset(c.cellOrientation_[cell], c.cellWidth_[cell], c.cellHeight_[cell], c.pinXOffsets_[p], c.pinYOffsets_[p], px, py);
      long long base = idx.count(cell) ? pos[idx[cell]] : (xAxis ? c.cellX_[cell] : c.cellY_[cell]);
      long long v = base + (xAxis ? px : py);
      mn = std::min(mn, v);
      mx = std::max(mx, v);
    }
    if (mx >= mn) tot += mx - mn;
  }
  return tot;
}

static void incrCase(Rng &rng, CaseResult &r) {
  std::string desc;
  Circuit c = randomPlacedCircuit(rng, desc);
  bool xAxis = rng.chance(0.5);
  int mode = (int)rng.range(0, 3);  // 0 all cells (default topology), 1 random subset, 2 empty, 3 all shuffled
  std::vector<int> subset;
  for (int i = 0; i < c.nbCells(); ++i) subset.push_back(i);
  if (mode == 1) {
    for (int i = (int)subset.size() - 1; i > 0; --i) std::swap(subset[i], subset[rng.range(0, i)]);
    subset.resize((size_t)rng.range(0, (long long)subset.size()));
  } else if (mode == 2) subset.clear();
  else if (mode == 3) for (int i = (int)subset.size() - 1; i > 0; --i) std::swap(subset[i], subset[rng.range(0, i)]);
  int nUpd = rng.chance(0.15) ? (int)rng.range(31, 300) : (int)rng.range(0, 30);
  if (r.needSample()) r.sample = vf::J::obj().kv("axis", xAxis ? "x" : "y").kv("mode", mode).kraw("subset", vf::jarr(subset)).kv("updates", nUpd).kraw("circuit", circuitJson(c)).str();
  if (r.dumpOnly) return;
  IncrNetModel m = mode == 0 ? (xAxis ? IncrNetModel::xTopology(c) : IncrNetModel::yTopology(c)) : (xAxis ? IncrNetModel::xTopology(c, subset) : IncrNetModel::yTopology(c, subset));
  std::vector<int> pos;
  for (int cell : subset) pos.push_back(xAxis ? c.cellX_[cell] : c.cellY_[cell]);
  try { m.check(); } catch (const std::exception &e) { r.fail("C09:incr-check-failed", e.what()); }
  long long v = m.value(), ref = scratch1d(c, xAxis, subset, pos);
  if (v != ref) r.fail("C09:incr-initial-value", "value()=" + std::to_string(v) + " from-scratch=" + std::to_string(ref) + " mode " + std::to_string(mode));
  int done = 0;
  for (int k = 0; k < nUpd && !subset.empty() && r.viol.empty(); ++k) {
    int i = (int)rng.range(0, (long long)subset.size() - 1);
    int np = rng.chance(0.1) ? pos[i] : (rng.chance(0.2) ? (int)rng.range(-100000, 100000) : pos[i] + (int)rng.range(-50, 50));
    if (rng.chance(0.15)) {
      // jump past everything else: just beyond the smallest or the largest position of the other cells
      int lo = INT_MAX, hi = INT_MIN;
      for (size_t j = 0; j < pos.size(); ++j) if ((int)j != i) { lo = std::min(lo, pos[j]); hi = std::max(hi, pos[j]); }
      if (lo <= hi) np = rng.chance(0.5) ? lo - (int)rng.range(1, 2000) : hi + (int)rng.range(1, 2000);
    }
    m.updateCellPos(i, np);
    pos[i] = np;
    ++done;
    if (k == nUpd / 2) {
      // a copy taken in the middle of the history is an independent model with the same value
      IncrNetModel mc = m;
      if (mc.value() != m.value()) r.fail("C09:copy-of-the-model-differs", "value() of a copy differs");
      int j = (int)rng.range(0, (long long)subset.size() - 1);
      mc.updateCellPos(j, pos[j] + 7);
      std::vector<int> p2 = pos;
      p2[j] += 7;
      long long refc = scratch1d(c, xAxis, subset, p2), refm = scratch1d(c, xAxis, subset, pos);
      if (mc.value() != refc) r.fail("C09:copy-of-the-model-differs", "after an update of the copy: value()=" + std::to_string(mc.value()) + " from-scratch=" + std::to_string(refc));
      if (m.value() != refm) r.fail("C09:copy-of-the-model-differs", "an update of the copy changed the original: value()=" + std::to_string(m.value()) + " from-scratch=" + std::to_string(refm));
    }
    try { m.check(); } catch (const std::exception &e) { r.fail("C09:incr-check-failed", std::string(e.what()) + " after update " + std::to_string(k + 1)); }
    long long v2 = m.value(), ref2 = scratch1d(c, xAxis, subset, pos);
    if (v2 != ref2) r.fail("C09:incr-value-after-update", "after update " + std::to_string(k + 1) + ": value()=" + std::to_string(v2) + " from-scratch=" + std::to_string(ref2));
    if (m.cellPos(i) != np) r.fail("C09:incr-position-not-stored", "cellPos mismatch");
  }
  r.count("updates", done);
  r.nontrivial = c.nbNets() > 0 && (done > 0 || mode == 2);
  r.sig = std::string(xAxis ? "x" : "y") + "m" + std::to_string(mode) + "u" + std::to_string(std::min(done / 4, 9)) + "n" + std::to_string(std::min(c.nbNets() / 4, 9)) + "s" + std::to_string(std::min((int)subset.size() / 4, 9));
}

int main(int argc, char **argv) {
  std::vector<vf::Part> parts;
  parts.push_back({"c09.hpwl", [](uint64_t, Rng &rng, CaseResult &r) { hpwlCase(rng, r); }, 10});
  parts.push_back(vf::threaded("c09.threads", [](uint64_t, Rng &rng, CaseResult &r) { incrCase(rng, r); }, 4, 25, 120));
  parts.push_back({"c09.incr", [](uint64_t, Rng &rng, CaseResult &r) { incrCase(rng, r); }, 10});
  return vf::runMain(argc, argv, parts);
}
