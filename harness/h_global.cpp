// Global placement: C06 (area containment, finite coordinates, export blend, completes) and
// C08 (pure function of circuit+parameters; independence of the completion order of the two concurrent solves; TSan)
#include <sched.h>

#include <atomic>
#include <chrono>
#include <cmath>
#include <cstring>
#include <mutex>
#include <thread>

#include "circ.hpp"
#include "place_global/verif_hooks.hpp"

using namespace coloquinte;
using namespace vfc;
using vf::CaseResult;
using vf::Rng;

static double ulpf(double v) {
  float f = (float)std::fabs(v);
  return (double)(std::nextafterf(f, INFINITY) - f);
}

static Circuit genGlobalCircuit(Rng &rng, std::string &profile) {
  profile = rng.pick(std::vector<std::string>{"general", "nets", "manyfixed", "obstruction", "multirow", "dense", "big", "floating", "allturned", "alltall", "blocked"});
  GenOpts o = makeProfile(rng, profile);
  o.minRowWidth4H = true;
  o.maxCells = (int)rng.pick(std::vector<int>{3, 10, 25, 60});
  if (profile == "big") o.maxCells = std::min(o.maxCells, 25);
  return genCircuit(rng, o);
}

// ------------------------------------------------------------------------------------------------ C06
static void c06Case(Rng &rng, CaseResult &r) {
  std::string profile, pdesc, gdesc;
  Circuit c0 = genGlobalCircuit(rng, profile);
  ColoquinteParameters params = genParams(rng, false, &pdesc);
  if (rng.chance(0.7)) genGlobalParams(rng, params, &gdesc, 40);
  else { params.global.maxNbSteps = (int)rng.range(1, 40); params.global.exportBlending = rng.chance(0.5) ? 0.99 : rng.unif(-0.5, 1.5); gdesc = "defaults steps=" + std::to_string(params.global.maxNbSteps) + " blend=" + std::to_string(params.global.exportBlending); }
  bool withCallback = !rng.chance(0.15);
  if (r.needSample()) r.sample = vf::J::obj().kv("profile", profile).kv("params", gdesc).kraw("circuit", circuitJson(c0)).str();
  if (r.dumpOnly) return;
  // the property quantifies over parameter sets ACCEPTED by the parameter check
  try { params.check(); } catch (const std::exception &) { r.count("parameter_set_rejected_by_check"); r.sig = "rejected"; return; }
  Rectangle area = c0.computePlacementArea();
  double maxCoord = std::max(std::max(std::fabs((double)area.minX), std::fabs((double)area.maxX)), std::max(std::fabs((double)area.minY), std::fabs((double)area.maxY)));
  for (int i = 0; i < c0.nbCells(); ++i) maxCoord = std::max(maxCoord, std::max(std::fabs((double)c0.cellX_[i]), std::fabs((double)c0.cellY_[i])) + std::max(c0.cellWidth_[i], c0.cellHeight_[i]));
  double slack = 0.5 + 2 * ulpf(maxCoord);
  // discriminator of the recorded finding: does any free row space survive the side margin (which the library derives
  // from the smallest positive cell height, not from the row height)?
  bool freeSpaceSurvivesMargin = false;
  {
    int minH = INT_MAX;
    for (int i = 0; i < c0.nbCells(); ++i) if (c0.cellHeight_[i] > 0) minH = std::min(minH, c0.cellHeight_[i]);
    int margin = (int)((float)params.global.roughLegalization.sideMargin * (float)minH);
    for (auto &row : c0.rows_) for (auto sgm : freeSegments(c0, row)) if (sgm.hi - sgm.lo > 2 * margin) freeSpaceSurvivesMargin = true;
  }
  Circuit c = c0;
  int nLB = 0, nUB = 0, nPU = 0;
  std::vector<double> Lx, Ly, Ux, Uy;  // centres of the cells at the last LowerBound / UpperBound exposure (with the sizes of that moment)
  auto centres = [&](std::vector<double> &X, std::vector<double> &Y) {
    X.assign(c.nbCells(), 0); Y.assign(c.nbCells(), 0);
    for (int i = 0; i < c.nbCells(); ++i) { X[i] = c.cellX_[i] + 0.5 * pW(c, i); Y[i] = c.cellY_[i] + 0.5 * pH(c, i); }
  };
  // a quarter of the observing callbacks also turn some unpolarised movable cells at one point (setCellOrientation is permitted
  // during a call): every later exposure and the returned placement must be consistent with the orientations of that time
  int turnAt = rng.chance(0.25) ? (int)rng.range(1, 8) : -1, ncbAll = 0;
  uint64_t turnSeed = rng.next();
  std::string cbErr, cbKey;
  auto checkFinite = [&](const char *where) {
    for (int i = 0; i < c.nbCells(); ++i) {
      if (c.cellIsFixed_[i]) continue;
      long long x = c.cellX_[i], y = c.cellY_[i];
      if (x == INT_MIN || y == INT_MIN || std::llabs(x) > (1LL << 30) || std::llabs(y) > (1LL << 30)) {
        if (cbErr.empty()) { cbKey = "C06:non-finite-or-overflowed-coordinate"; cbErr = std::string(where) + ": cell " + std::to_string(i) + " at (" + std::to_string(x) + "," + std::to_string(y) + ")"; }
      }
    }
  };
  PlacementCallback cb = [&](PlacementStep step) {
    checkFinite(step == PlacementStep::LowerBound ? "LowerBound callback" : step == PlacementStep::UpperBound ? "UpperBound callback" : "callback");
    if (step == PlacementStep::LowerBound) { ++nLB; centres(Lx, Ly); }
    else if (step == PlacementStep::UpperBound) {
      ++nUB;
      centres(Ux, Uy);
      for (int i = 0; i < c.nbCells(); ++i) {
        if (c.cellIsFixed_[i] || c.cellWidth_[i] <= 0 || c.cellHeight_[i] <= 0) continue;
        double cx = c.cellX_[i] + 0.5 * pW(c, i), cy = c.cellY_[i] + 0.5 * pH(c, i);
        if (cx < area.minX - slack || cx > area.maxX + slack || cy < area.minY - slack || cy > area.maxY + slack) {
          if (cbErr.empty()) { cbKey = freeSpaceSurvivesMargin ? "C06:cell-centre-outside-placement-area" : "C06:cell-centre-outside-placement-area:no-free-row-space-survives-the-side-margin"; cbErr = "UpperBound callback " + std::to_string(nUB) + ": cell " + std::to_string(i) + " centre (" + std::to_string(cx) + "," + std::to_string(cy) + ") outside rows' bounding box [" + std::to_string(area.minX) + "," + std::to_string(area.maxX) + "]x[" + std::to_string(area.minY) + "," + std::to_string(area.maxY) + "]"; }
        }
      }
    } else if (step == PlacementStep::PenaltyUpdate) ++nPU;
    else if (cbErr.empty()) { cbKey = "C06:unexpected-callback-step"; cbErr = "Detailed step during global placement"; }
    if (++ncbAll == turnAt) {
      Rng trng(turnSeed);
      std::vector<CellOrientation> oo = c.cellOrientation_;
      for (int i = 0; i < c.nbCells(); ++i) if (!c.cellIsFixed_[i] && c.cellRowPolarity_[i] == CellRowPolarity::ANY && trng.chance(0.5)) oo[i] = ALL8[trng.range(0, 7)];
      c.setCellOrientation(oo);
      r.count("callbacks_that_turned_cells");
    }
  };
  bool ok = false;
  try {
    if (withCallback) c.placeGlobal(params, cb); else c.placeGlobal(params);
    ok = true;
  } catch (const std::exception &e) {
    r.fail("C06:placeGlobal-threw", std::string(e.what()) + " | " + gdesc);
  }
  if (!cbErr.empty()) r.fail(cbKey, cbErr + " | " + gdesc);
  if (ok) {
    checkFinite("on return");
    if (!cbErr.empty()) r.fail(cbKey, cbErr + " | " + gdesc);
    // orientation and fixed cells untouched (cheap frame check, C03 owns the full one)
    if (withCallback && nLB > 0 && nUB > 0) {
      double w = (float)params.global.exportBlending;
      double tol = 0.5 * (std::fabs(1 - w) + std::fabs(w)) + 0.5 + 4 * ulpf(maxCoord) * (std::fabs(1 - w) + std::fabs(w) + 1);
      for (int i = 0; i < c.nbCells(); ++i) {
        if (c.cellIsFixed_[i]) continue;
        double bx = (1 - w) * Lx[i] + w * Ux[i], by = (1 - w) * Ly[i] + w * Uy[i];
        double rx = c.cellX_[i] + 0.5 * pW(c, i), ry = c.cellY_[i] + 0.5 * pH(c, i);
        if (std::fabs(rx - bx) > tol + 0.5 || std::fabs(ry - by) > tol + 0.5) {
          r.fail("C06:returned-placement-is-not-the-blend", "cell " + std::to_string(i) + " returned centre (" + std::to_string(rx) + "," + std::to_string(ry) + ") blend " + std::to_string(w) + " of last LB (" + std::to_string(Lx[i]) + "," + std::to_string(Ly[i]) + ") and last UB (" + std::to_string(Ux[i]) + "," + std::to_string(Uy[i]) + ") = (" + std::to_string(bx) + "," + std::to_string(by) + ") tolerance " + std::to_string(tol) + " | " + gdesc);
          break;
        }
      }
    }
  }
  if (!freeSpaceSurvivesMargin) r.count("instances_where_the_side_margin_removes_all_free_space");
  r.count("lb_callbacks", nLB);
  r.count("ub_callbacks", nUB);
  r.count("penalty_update_callbacks", nPU);
  Features f = features(c0);
  r.nontrivial = ok && (nUB > 1 || !withCallback);
  double w = params.global.exportBlending;
  r.sig = profile.substr(0, 3) + f.str() + "m" + std::to_string((int)params.global.continuousModel.netModel) + "c" + std::to_string((int)params.global.roughLegalization.costModel) + "w" + (w < 0 ? "n" : w == 0 ? "0" : w < 1 ? "i" : w == 1 ? "1" : "x") + "u" + std::to_string(std::min(nUB / 4, 9)) + (withCallback ? "c" : "-");
}

// ------------------------------------------------------------------------------------------------ C08 (a)
static bool sameSol(const Circuit &a, const Circuit &b) { return a.cellX_ == b.cellX_ && a.cellY_ == b.cellY_ && a.cellOrientation_ == b.cellOrientation_; }

static std::string solHash(const Circuit &c, bool threw) {
  uint64_t h = 1469598103934665603ull;
  auto mixv = [&](long long v) { h = (h ^ (uint64_t)v) * 1099511628211ull; };
  for (int i = 0; i < c.nbCells(); ++i) { mixv(c.cellX_[i]); mixv(c.cellY_[i]); mixv((int)c.cellOrientation_[i]); }
  return (threw ? "T" : "R") + std::to_string((unsigned long long)h);
}

static void c08PureCase(uint64_t idx, Rng &rng, CaseResult &r) {
  std::string profile, pdesc, gdesc;
  int stage = (int)rng.range(0, 2);
  Circuit c0 = stage == 0 ? genGlobalCircuit(rng, profile) : genCircuit(rng, makeProfile(rng, profile = rng.pick(std::vector<std::string>{"general", "nets", "polarity", "multirow", "dense"})));
  ColoquinteParameters params = genParams(rng, true, &pdesc);
  if (rng.chance(0.5)) genGlobalParams(rng, params, &gdesc, 15); else params.global.maxNbSteps = (int)rng.range(1, 20);
  // an unrelated circuit / parameter set for the interleaved run
  std::string p2;
  Circuit other = genGlobalCircuit(rng, p2);
  ColoquinteParameters oparams((int)rng.range(1, 9), (int)rng.range(0, 1000));
  oparams.global.maxNbSteps = 5;
  const char *sn[3] = {"placeGlobal", "legalize", "placeDetailed"};
  if (r.needSample()) r.sample = vf::J::obj().kv("stage", sn[stage]).kv("profile", profile).kv("params", pdesc + " | " + gdesc).kraw("circuit", circuitJson(c0)).str();
  if (r.dumpOnly) return;
  auto run = [&](Circuit &c, bool withCb, bool &threw) {
    threw = false;
    int n = 0;
    PlacementCallback cb = [&](PlacementStep) { ++n; (void)c.hpwl(); };
    try {
      if (stage == 0) { if (withCb) c.placeGlobal(params, cb); else c.placeGlobal(params); }
      else if (stage == 1) { if (withCb) c.legalize(params, cb); else c.legalize(params); }
      else { if (withCb) c.placeDetailed(params, cb); else c.placeDetailed(params); }
    } catch (const std::exception &) { threw = true; }
  };
  bool t0, t1, t2, t3, t4;
  Circuit base = c0;
  run(base, false, t0);
  if (r.evalOnly) { r.evalOut = solHash(base, t0); return; }
  Circuit copy = c0;          // a copy, with an observing callback
  run(copy, true, t1);
  Circuit again = c0;         // immediately again
  run(again, false, t2);
  {                           // an unrelated run in between
    Circuit o = other;
    try { o.placeGlobal(oparams); o.placeDetailed(oparams); } catch (const std::exception &) {}
  }
  Circuit after = c0;
  run(after, true, t3);
  Circuit *heap = new Circuit(c0);  // a heap-allocated copy (different addresses)
  run(*heap, false, t4);
  if (t0 != t1 || t0 != t2 || t0 != t3 || t0 != t4) r.fail("C08:outcome-differs-between-runs", std::string(sn[stage]) + ": returned/threw differs between identical runs");
  else if (!t0) {
    if (!sameSol(base, copy)) r.fail("C08:result-depends-on-observing-callback", std::string(sn[stage]) + ": run with a callback differs from the run without");
    if (!sameSol(base, again)) r.fail("C08:result-differs-between-repeated-runs", std::string(sn[stage]));
    if (!sameSol(base, after)) r.fail("C08:result-depends-on-earlier-runs-in-the-process", std::string(sn[stage]) + ": differs after an unrelated run");
    if (!sameSol(base, *heap)) r.fail("C08:result-differs-on-a-copy", std::string(sn[stage]));
  }
  delete heap;
  // the same call in a freshly started process (this worker has already placed many other circuits)
  {
    std::string fresh;
    if (vf::evalInFreshProcess("c08.pure", idx, fresh)) {
      r.count("compared_with_a_fresh_process");
      if (fresh != solHash(base, t0)) r.fail("C08:result-depends-on-the-history-of-the-process", std::string(sn[stage]) + ": a freshly started process computes a different result for the same circuit and parameters (this worker had run other placements before)");
    } else {
      r.count("fresh_process_unavailable");
    }
  }
  r.count(t0 ? "threw" : "returned");
  r.nontrivial = !t0 && !sameSol(base, c0);
  Features f = features(c0);
  r.sig = std::string(sn[stage]) + f.str() + (t0 ? "x" : "r");
}

// A circuit object that lives through a history of calls (stages in any order and repeated, positions / orientations /
// net weights changed in between, copies taken) must behave, at every call, exactly like a circuit built afresh through the
// public setters from the data visible just before that call: placement is a function of the circuit and the parameters,
// not of what the object has been through.
static Circuit rebuilt(const Circuit &c) {
  Circuit n(c.nbCells());
  n.setCellWidth(c.cellWidth_);
  n.setCellHeight(c.cellHeight_);
  n.setCellIsFixed(c.cellIsFixed_);
  n.setCellIsObstruction(c.cellIsObstruction_);
  n.setCellRowPolarity(c.cellRowPolarity_);
  n.setCellX(c.cellX_);
  n.setCellY(c.cellY_);
  n.setCellOrientation(c.cellOrientation_);
  n.setRows(c.rows_);
  n.setNets(c.netLimits_, c.pinCells_, c.pinXOffsets_, c.pinYOffsets_, c.netWeights_);
  return n;
}
static void c08HistoryCase(Rng &rng, CaseResult &r) {
  std::string profile, pdesc;
  Circuit c = genGlobalCircuit(rng, profile);
  if (c.nbCells() > 25) { GenOpts o = makeProfile(rng, "general"); o.maxCells = 20; o.minRowWidth4H = true; c = genCircuit(rng, o); profile = "general-small"; }
  int nOps = (int)rng.range(2, 7);
  std::ostringstream hist;
  std::string sample;
  if (r.needSample() || r.dumpOnly) sample = circuitJson(c);
  if (r.dumpOnly) { r.sample = vf::J::obj().kv("profile", profile).kraw("initial_circuit", sample).str(); return; }
  int compared = 0, moved = 0;
  for (int k = 0; k < nOps && r.viol.empty(); ++k) {
    int op = (int)rng.range(0, 7);
    if (op <= 2 || op == 7) {
      // a placement call, on the long-lived object and on a reconstruction of what is visible now
      int stage = op == 7 ? (int)rng.range(0, 2) : op;
      ColoquinteParameters params = genParams(rng, true, &pdesc);
      params.global.maxNbSteps = (int)rng.range(1, 6);
      if (rng.chance(0.3)) genGlobalParams(rng, params, nullptr, 6);
      bool withCb = rng.chance(0.4);
      static const char *sn[3] = {"placeGlobal", "legalize", "placeDetailed"};
      hist << sn[stage] << (withCb ? "+cb " : " ");
      Circuit twin = rebuilt(c);
      Circuit before = c;
      auto call = [&](Circuit &cc, std::string &err) -> bool {
        PlacementCallback cb = [&](PlacementStep) { (void)cc.hpwl(); };
        try {
          if (stage == 0) { if (withCb) cc.placeGlobal(params, cb); else cc.placeGlobal(params); }
          else if (stage == 1) { if (withCb) cc.legalize(params, cb); else cc.legalize(params); }
          else { if (withCb) cc.placeDetailed(params, cb); else cc.placeDetailed(params); }
          return true;
        } catch (const std::exception &e) { err = e.what(); return false; }
      };
      std::string e1, e2;
      bool ok1 = call(c, e1), ok2 = call(twin, e2);
      ++compared;
      if (ok1 != ok2 || e1 != e2)
        r.fail("C08:long-lived-object-differs-from-rebuilt-circuit", std::string(sn[stage]) + " after history [" + hist.str() + "]: " + (ok1 ? "returned" : "threw '" + e1 + "'") + " on the object that went through the history, " + (ok2 ? "returned" : "threw '" + e2 + "'") + " on a circuit rebuilt from the same visible data");
      else if (!sameSol(c, twin))
        r.fail("C08:long-lived-object-differs-from-rebuilt-circuit", std::string(sn[stage]) + " after history [" + hist.str() + "]: different placements on the object that went through the history and on a circuit rebuilt from the same visible data");
      std::string fd = frameDiff(before, c, stage == 0);
      if (!fd.empty()) r.fail("C03:frame-changed-in-history", std::string(sn[stage]) + ": " + fd);
      if (!sameSol(before, c)) ++moved;
    } else if (op == 3) {
      hist << "perturb ";
      std::vector<int> x = c.cellX_, y = c.cellY_;
      for (int i = 0; i < c.nbCells(); ++i) if (!c.cellIsFixed_[i] && rng.chance(0.5)) { x[i] += (int)rng.range(-30, 30); y[i] += (int)rng.range(-30, 30); }
      c.setCellX(x);
      c.setCellY(y);
    } else if (op == 4) {
      hist << "reweight ";
      std::vector<float> w = c.netWeights_;
      for (auto &v : w) if (rng.chance(0.5)) v = (float)rng.pick(std::vector<double>{0.5, 1.0, 2.0, 3.0});
      c.setNetWeights(w);
    } else if (op == 5) {
      hist << "copy ";
      Circuit tmp = c;   // continue on a copy, drop the original
      c = tmp;
    } else {
      hist << "resize-same ";
      c.setCellWidth(c.cellWidth_);
      c.setCellHeight(c.cellHeight_);
    }
  }
  r.count("calls_compared_with_a_rebuilt_circuit", compared);
  r.nontrivial = compared >= 2 && moved >= 1;
  r.sig = profile + ":" + std::to_string(compared) + ":" + std::to_string(std::min(moved, 3));
  if (r.needSample()) r.sample = vf::J::obj().kv("profile", profile).kv("history", hist.str()).kraw("initial_circuit", sample).str();
}

// ------------------------------------------------------------------------------------------------ C08 (b)
// Schedule control through the COLOQUINTE_VERIF hook. Each lower-bound step runs exactly two solveWithPenalty
// calls concurrently. Per step, a schedule bit selects which of the two (first or second to begin) is held at its
// begin hook until the other one has ended.  The log records (step, model, begin/end) events.
namespace sched {
struct Event { int step; const void *model; int kind; };  // kind 0 begin, 1 end
static std::mutex mu;
static std::vector<Event> log_;
static int begins = 0;
static std::vector<int> endedInStep;   // number of ends per step
static std::vector<unsigned char> bits;  // schedule
static bool active = false;
static int mode = 0;  // 0: no delay, 1: schedule bits, 2: random sleeps
static std::atomic<long long> waitsTimedOut{0};
static uint64_t jitterSeed = 0;

static void onBegin(const void *m) {
  int step, seq;
  bool hold = false;
  unsigned us = 0;
  {
    std::lock_guard<std::mutex> g(mu);
    if (!active) return;
    step = begins / 2;
    seq = begins % 2;
    ++begins;
    if ((int)endedInStep.size() <= step) endedInStep.resize(step + 1, 0);
    log_.push_back({step, m, 0});
    if (mode == 1) hold = (bits[step % bits.size()] & 1) == (unsigned)seq;
    if (mode == 2) { jitterSeed = Rng::mix(jitterSeed + 0x9E3779B97F4A7C15ull); us = (unsigned)(jitterSeed % 300); }
  }
  if (mode == 2 && us) std::this_thread::sleep_for(std::chrono::microseconds(us));
  if (hold) {
    // wait until the other solve of this step has ended (bounded: never a verdict, only counted)
    auto t0 = std::chrono::steady_clock::now();
    while (true) {
      {
        std::lock_guard<std::mutex> g(mu);
        if (endedInStep[step] >= 1) break;
      }
      if (std::chrono::steady_clock::now() - t0 > std::chrono::seconds(5)) { waitsTimedOut++; break; }
      sched_yield();
      std::this_thread::sleep_for(std::chrono::microseconds(50));
    }
  }
}
static void onEnd(const void *m) {
  std::lock_guard<std::mutex> g(mu);
  if (!active) return;
  // the step of this model: last begin event of the same model
  int step = 0;
  for (auto it = log_.rbegin(); it != log_.rend(); ++it) if (it->model == m && it->kind == 0) { step = it->step; break; }
  log_.push_back({step, m, 1});
  if ((int)endedInStep.size() <= step) endedInStep.resize(step + 1, 0);
  endedInStep[step]++;
}
static void arm(int mode_, const std::vector<unsigned char> &b, uint64_t seed) {
  std::lock_guard<std::mutex> g(mu);
  log_.clear();
  begins = 0;
  endedInStep.clear();
  bits = b.empty() ? std::vector<unsigned char>{0} : b;
  mode = mode_;
  jitterSeed = seed;
  active = true;
}
static void disarm() {
  std::lock_guard<std::mutex> g(mu);
  active = false;
}
}  // namespace sched

static void setAffinity(int ncpu) {
  cpu_set_t set;
  CPU_ZERO(&set);
  long n = sysconf(_SC_NPROCESSORS_ONLN);
  if (ncpu == 1) CPU_SET((int)(getpid() % n), &set);
  else for (int i = 0; i < n; ++i) CPU_SET(i, &set);
  sched_setaffinity(0, sizeof set, &set);
}

static void c08SchedCase(Rng &rng, CaseResult &r, bool light) {
  std::string profile, pdesc, gdesc;
  Circuit c0 = genGlobalCircuit(rng, profile);
  ColoquinteParameters params = genParams(rng, false, &pdesc);
  if (rng.chance(0.5)) genGlobalParams(rng, params, &gdesc, 12); else params.global.maxNbSteps = (int)rng.range(2, 14);
  params.global.gapTolerance = 0.0;      // keep iterating: more concurrent steps
  params.global.distanceTolerance = 0.0;
  if (r.needSample()) r.sample = vf::J::obj().kv("profile", profile).kv("params", gdesc).kv("what", "placeGlobal under forced completion orders of the x/y solves").kraw("circuit", circuitJson(c0)).str();
  if (r.dumpOnly) return;
  try { params.check(); } catch (const std::exception &) { r.count("parameter_set_rejected_by_check"); r.sig = "rejected"; return; }
  coloquinte::verif::onSolveBegin.store(sched::onBegin);
  coloquinte::verif::onSolveEnd.store(sched::onEnd);
  auto runWith = [&](int mode, const std::vector<unsigned char> &bits, Circuit &out, long long &firstLow, long long &firstHigh, int &steps) -> bool {
    out = c0;
    sched::arm(mode, bits, rng.next());
    bool ok = true;
    try { out.placeGlobal(params); } catch (const std::exception &) { ok = false; }
    sched::disarm();
    // analyse the log: per step, which model ended first; the lower address is the x model (declared first)
    std::lock_guard<std::mutex> g(sched::mu);
    const void *lo = nullptr, *hi = nullptr;
    for (auto &e : sched::log_) { if (!lo || e.model < lo) lo = e.model; if (!hi || e.model > hi) hi = e.model; }
    std::map<int, const void *> firstEnd;
    steps = 0;
    for (auto &e : sched::log_) { if (e.kind == 1 && !firstEnd.count(e.step)) firstEnd[e.step] = e.model; steps = std::max(steps, e.step + 1); }
    firstLow = firstHigh = 0;
    if (lo != hi) for (auto &fe : firstEnd) { if (fe.second == lo) ++firstLow; else ++firstHigh; }
    return ok;
  };
  Circuit base = c0, cur = c0;
  long long fl, fh;
  int steps = 0;
  bool okBase = runWith(0, {}, base, fl, fh, steps);
  long long xFirst = fl, yFirst = fh;
  std::set<std::string> patterns;
  if (!okBase) { r.fail("C08:placeGlobal-threw", gdesc); return; }
  std::vector<std::pair<std::string, std::vector<unsigned char>>> schedules = {{"hold-first-beginner", {0}}, {"hold-second-beginner", {1}}, {"alternate", {0, 1}}};
  int nRandom = light ? 1 : 4;
  for (int k = 0; k < nRandom; ++k) {
    std::vector<unsigned char> b;
    for (int i = 0; i < 16; ++i) b.push_back((unsigned char)rng.range(0, 1));
    schedules.push_back({"random-mask-" + std::to_string(k), b});
  }
  std::vector<int> affinities = light ? std::vector<int>{0} : std::vector<int>{0, 1};
  for (int aff : affinities) {
    if (aff == 1) setAffinity(1);
    for (auto &s : schedules) {
      int st;
      bool ok = runWith(1, s.second, cur, fl, fh, st);
      xFirst += fl;
      yFirst += fh;
      patterns.insert(std::to_string(fl) + "/" + std::to_string(fh));
      if (!ok) r.fail("C08:placeGlobal-threw-under-schedule", s.first);
      else if (!sameSol(base, cur)) r.fail("C08:result-depends-on-completion-order", "schedule " + s.first + (aff ? " (single core)" : " (all cores)") + ": placement differs from the undisturbed run | " + gdesc);
    }
    {  // random jitter at the begin hooks
      int st;
      bool ok = runWith(2, {}, cur, fl, fh, st);
      xFirst += fl;
      yFirst += fh;
      if (ok && !sameSol(base, cur)) r.fail("C08:result-depends-on-completion-order", std::string("random delays") + (aff ? " (single core)" : " (all cores)"));
    }
    if (aff == 1) setAffinity(0);
  }
  coloquinte::verif::onSolveBegin.store(nullptr);
  coloquinte::verif::onSolveEnd.store(nullptr);
  r.count("lb_steps_per_run", steps);
  r.count("x_solve_finished_first", xFirst);
  r.count("y_solve_finished_first", yFirst);
  r.count("hold_waits_timed_out", sched::waitsTimedOut.exchange(0));
  r.count("runs", (long long)(affinities.size() * (schedules.size() + 1) + 1));
  r.nontrivial = steps > 0 && xFirst > 0 && yFirst > 0;
  Features f = features(c0);
  r.sig = profile.substr(0, 3) + f.str() + "s" + std::to_string(std::min(steps, 15)) + "p" + std::to_string(patterns.size());
}

int main(int argc, char **argv) {
  std::vector<vf::Part> parts;
  parts.push_back({"c06.global", [](uint64_t, Rng &rng, CaseResult &r) { c06Case(rng, r); }, 120});
  parts.push_back({"c08.pure", [](uint64_t idx, Rng &rng, CaseResult &r) { c08PureCase(idx, rng, r); }, 120});
  parts.push_back({"c08.history", [](uint64_t, Rng &rng, CaseResult &r) { c08HistoryCase(rng, r); }, 300});
  parts.push_back({"c08.sched", [](uint64_t, Rng &rng, CaseResult &r) { c08SchedCase(rng, r, false); }, 300});
  parts.push_back({"c08.sched.light", [](uint64_t, Rng &rng, CaseResult &r) { c08SchedCase(rng, r, true); }, 300});
  return vf::runMain(argc, argv, parts);
}
