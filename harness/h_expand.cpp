// C18: Circuit::expandCellsToDensity / expandCellsByFactor / computeCellExpansion
#include <cmath>

#include "circ.hpp"

using namespace coloquinte;
using namespace vfc;
using vf::CaseResult;
using vf::Rng;

// independent available area: free segments, each reduced by the side margin (truncating, as documented), times height
static long long availArea(const Circuit &c, double margin) {
  long long a = 0;
  for (auto &r : c.rows_)
    for (auto s : freeSegments(c, r)) {
      long long h = r.height();
      long long w = (long long)((double)(s.hi - s.lo) - 2 * margin * h);
      if (w > 0) a += w * h;
    }
  return a;
}

static Circuit genExpandCircuit(Rng &rng) {
  GenOpts o = makeProfile(rng, rng.pick(std::vector<std::string>{"general", "obstruction", "multirow", "manyfixed"}));
  o.utilLo = 0.02;
  o.utilHi = rng.chance(0.2) ? 1.1 : 0.6;
  if (rng.chance(0.15)) o.scale = (int)rng.pick(std::vector<int>{10, 1000});
  Circuit c = genCircuit(rng, o);
  // turned movable cells (no polarity): the footprint is height x width
  if (rng.chance(0.5))
    for (int i = 0; i < c.nbCells(); ++i)
      if (!c.cellIsFixed_[i] && c.cellRowPolarity_[i] == CellRowPolarity::ANY && rng.chance(0.4)) {
        static const CellOrientation turnedO[4] = {CellOrientation::W, CellOrientation::E, CellOrientation::FW, CellOrientation::FE};
        bool was = c.cellOrientation_[i] == CellOrientation::W || c.cellOrientation_[i] == CellOrientation::E || c.cellOrientation_[i] == CellOrientation::FW || c.cellOrientation_[i] == CellOrientation::FE;
        if (!was) std::swap(c.cellWidth_[i], c.cellHeight_[i]);  // keep the placed footprint
        c.cellOrientation_[i] = turnedO[rng.range(0, 3)];
      }
  // a few zero-size movable cells
  if (rng.chance(0.3))
    for (int i = 0; i < c.nbCells(); ++i)
      if (!c.cellIsFixed_[i] && rng.chance(0.15)) { if (rng.chance(0.5)) c.cellWidth_[i] = 0; else c.cellHeight_[i] = 0; }
  return c;
}

static void densityCase(Rng &rng, CaseResult &r) {
  Circuit c0 = genExpandCircuit(rng);
  double target = rng.unif(0.02, 0.98);
  double margin = rng.chance(0.5) ? 0.0 : rng.unif(0.0, 2.0);
  double cap = rng.chance(0.5) ? 1.0 : rng.unif(0.02, 1.2);
  if (rng.chance(0.25)) {
    // cap just above the largest exact target width (and, half of the time, all movable cells of one width)
    if (rng.chance(0.5)) { int w1 = 0; for (int i = 0; i < c0.nbCells(); ++i) if (!c0.cellIsFixed_[i] && c0.cellWidth_[i] > 0) { if (!w1) w1 = c0.cellWidth_[i]; c0.cellWidth_[i] = w1; } }
    long long a0 = 0; int wmax = 0, mrw = 0;
    for (int i = 0; i < c0.nbCells(); ++i) if (!c0.cellIsFixed_[i]) { a0 += (long long)c0.cellWidth_[i] * c0.cellHeight_[i]; if (c0.cellHeight_[i] > 0) wmax = std::max(wmax, c0.cellWidth_[i]); }
    for (auto &row : c0.rows_) mrw = std::max(mrw, row.width());
    long long av = availArea(c0, margin);
    if (a0 > 0 && av > 0 && mrw > 0 && target * av > a0) cap = (wmax * (target * av / a0) + rng.unif(0.0, 0.95)) / mrw;
  }
  if (r.needSample()) r.sample = vf::J::obj().kv("api", "expandCellsToDensity").kv("target", target).kv("margin", margin).kv("cap", cap).kraw("circuit", circuitJson(c0)).str();
  if (r.dumpOnly) return;
  Circuit c = c0;
  try {
    c.expandCellsToDensity(target, margin, cap);
  } catch (const std::exception &e) {
    r.fail("C18:density-threw", e.what());
    return;
  }
  int maxRowW = 0;
  for (auto &row : c.rows_) maxRowW = std::max(maxRowW, row.width());
  double capW = maxRowW * cap;
  long long area0 = 0, area1 = 0;
  bool capped = false;
  int maxH = 0;
  // frame: everything except movable widths
  Circuit cmp = c;
  for (int i = 0; i < c.nbCells(); ++i) if (!c.cellIsFixed_[i]) cmp.cellWidth_[i] = c0.cellWidth_[i];
  std::string fd = frameDiff(c0, cmp, true);
  if (!fd.empty() || !samePlacement(c0, c)) r.fail("C18:density-changed-something-else", fd.empty() ? "placement changed" : fd);
  int widened = 0;
  for (int i = 0; i < c.nbCells(); ++i) {
    if (c.cellIsFixed_[i]) { if (c.cellWidth_[i] != c0.cellWidth_[i]) r.fail("C18:fixed-cell-width-changed", "cell " + std::to_string(i)); continue; }
    area0 += (long long)c0.cellWidth_[i] * c0.cellHeight_[i];
    area1 += (long long)c.cellWidth_[i] * c.cellHeight_[i];
    maxH = std::max(maxH, c.cellHeight_[i]);
    if (c.cellWidth_[i] < c0.cellWidth_[i] && capW >= c0.cellWidth_[i]) r.fail("C18:density-cell-narrower", "cell " + std::to_string(i) + " " + std::to_string(c0.cellWidth_[i]) + " -> " + std::to_string(c.cellWidth_[i]) + " cap width " + std::to_string(capW));
    if (c.cellWidth_[i] > c0.cellWidth_[i]) ++widened;
    if (c0.cellWidth_[i] > 0 && c0.cellHeight_[i] > 0 && c.cellWidth_[i] >= (int)capW) capped = true;
  }
  long long avail = availArea(c0, margin);
  std::string sig = "D";
  if (avail > 0 && area0 > 0) {
    double d0 = (double)area0 / avail;
    if (d0 < target) {
      if ((double)area1 > target * avail + maxH + 1e-6 * avail) r.fail("C18:density-over-target", "movable area " + std::to_string(area1) + " > target*available " + std::to_string(target * avail) + " + max cell height " + std::to_string(maxH));
      // "reachable without hitting the per-cell cap", decided on the exact (real-valued) widths: every movable cell scaled by
      // the common ratio stays at or below the cap width. Then the integer result must be within one cell height of the target,
      // whether or not some rounded width happens to equal floor(cap).
      double ratio = target * (double)avail / (double)area0;
      bool reachable = true;
      for (int i = 0; i < c.nbCells(); ++i) if (!c.cellIsFixed_[i] && c0.cellHeight_[i] > 0 && (double)c0.cellWidth_[i] * ratio > capW * (1 - 1e-9)) reachable = false;
      if (reachable) r.count("targets_reachable_below_the_cap");
      if (reachable && std::fabs((double)area1 - target * avail) > maxH + 1 + 1e-6 * avail) r.fail("C18:density-target-not-reached", "movable area " + std::to_string(area1) + " target*available " + std::to_string(target * avail) + " max cell height " + std::to_string(maxH) + " (every exact width stays below the cap width " + std::to_string(capW) + ")");
      if (!capped && std::fabs((double)area1 - target * avail) > maxH + 1 + 1e-6 * avail) r.fail("C18:density-target-not-reached", "movable area " + std::to_string(area1) + " target*available " + std::to_string(target * avail) + " max cell height " + std::to_string(maxH) + " (no cell hit the cap)");
      sig += capped ? "c" : "r";
    } else {
      if (area1 != area0) r.fail("C18:density-changed-when-already-dense", "area " + std::to_string(area0) + " -> " + std::to_string(area1));
      sig += "d";
    }
  } else {
    if (area1 != area0) r.fail("C18:density-changed-with-no-area", "");
    sig += "0";
  }
  if (r.viol.empty() && rng.chance(0.35)) {
    // the object has a past: after the first expansion some cells are turned / moved / re-flagged through the public setters, then
    // a second expansion is asked for. It must equal the same call on a circuit built afresh from the data visible at that time.
    std::vector<CellOrientation> oo = c.cellOrientation_;
    std::vector<int> xx = c.cellX_;
    std::vector<bool> ob = c.cellIsObstruction_;
    int what = (int)rng.range(0, 2);
    for (int i = 0; i < c.nbCells(); ++i) {
      if (!c.cellIsFixed_[i] || !rng.chance(0.7)) continue;
      if (what == 0) oo[i] = ALL8[rng.range(0, 7)]; else if (what == 1) xx[i] += (int)rng.range(-20, 20); else ob[i] = !ob[i];
    }
    if (what == 0) c.setCellOrientation(oo); else if (what == 1) c.setCellX(xx); else c.setCellIsObstruction(ob);
    Circuit fresh(c.nbCells());
    fresh.setCellWidth(c.cellWidth_); fresh.setCellHeight(c.cellHeight_); fresh.setCellIsFixed(c.cellIsFixed_); fresh.setCellIsObstruction(c.cellIsObstruction_);
    fresh.setCellRowPolarity(c.cellRowPolarity_); fresh.setCellX(c.cellX_); fresh.setCellY(c.cellY_); fresh.setCellOrientation(c.cellOrientation_);
    fresh.setRows(c.rows_); fresh.setNets(c.netLimits_, c.pinCells_, c.pinXOffsets_, c.pinYOffsets_, c.netWeights_);
    double t2 = std::min(0.98, target + rng.unif(0.0, 0.4));
    bool ok1 = true, ok2 = true;
    try { c.expandCellsToDensity(t2, margin, cap); } catch (const std::exception &) { ok1 = false; }
    try { fresh.expandCellsToDensity(t2, margin, cap); } catch (const std::exception &) { ok2 = false; }
    if (ok1 != ok2 || c.cellWidth_ != fresh.cellWidth_) r.fail("C18:second-expansion-differs-from-a-rebuilt-circuit", std::string("after the first expansion and a ") + (what == 0 ? "setCellOrientation" : what == 1 ? "setCellX" : "setCellIsObstruction") + " on fixed cells, expandCellsToDensity gives other widths than on a circuit rebuilt from the same data");
    r.count("second_expansions_compared");
  }
  r.nontrivial = widened > 0;
  r.count("cells_widened", widened);
  Features f = features(c0);
  r.sig = sig + (margin > 0 ? "m" : "-") + (cap < 1 ? "k" : "-") + f.str();
}

static void factorCase(Rng &rng, CaseResult &r) {
  Circuit c0 = genExpandCircuit(rng);
  double margin = rng.chance(0.5) ? 0.0 : rng.unif(0.0, 2.0);
  std::vector<float> fac(c0.nbCells());
  for (auto &x : fac) x = rng.chance(0.4) ? 1.0f : (1.0f + (float)rng.unif() * (rng.chance(0.2) ? 8.0f : 2.0f));
  double maxD = rng.chance(0.3) ? 1.0 : rng.unif(0.05, 1.0);
  if (r.needSample()) r.sample = vf::J::obj().kv("api", "expandCellsByFactor").kv("maxDensity", maxD).kv("margin", margin).kraw("factors", vf::jarrd(fac)).kraw("circuit", circuitJson(c0)).str();
  if (r.dumpOnly) return;
  Circuit f = c0;
  try {
    f.expandCellsByFactor(fac, maxD, margin);
  } catch (const std::exception &e) {
    r.fail("C18:factor-threw", e.what());
    return;
  }
  Circuit cmp = f;
  for (int i = 0; i < f.nbCells(); ++i) if (!f.cellIsFixed_[i]) cmp.cellWidth_[i] = c0.cellWidth_[i];
  std::string fd = frameDiff(c0, cmp, true);
  if (!fd.empty() || !samePlacement(c0, f)) r.fail("C18:factor-changed-something-else", fd.empty() ? "placement changed" : fd);
  long long a0 = 0, a1 = 0;
  int nMov = 0, widened = 0;
  for (int i = 0; i < f.nbCells(); ++i) {
    if (f.cellIsFixed_[i]) { if (f.cellWidth_[i] != c0.cellWidth_[i]) r.fail("C18:fixed-cell-width-changed", "cell " + std::to_string(i)); continue; }
    ++nMov;
    a0 += (long long)c0.cellWidth_[i] * c0.cellHeight_[i];
    a1 += (long long)f.cellWidth_[i] * f.cellHeight_[i];
    if (f.cellWidth_[i] < c0.cellWidth_[i]) r.fail("C18:factor-cell-narrower", "cell " + std::to_string(i) + " " + std::to_string(c0.cellWidth_[i]) + " -> " + std::to_string(f.cellWidth_[i]) + " factor " + std::to_string(fac[i]));
    if (f.cellWidth_[i] > c0.cellWidth_[i]) ++widened;
    double lim = std::floor((double)c0.cellWidth_[i] * (double)fac[i] * (1.0 + 1.3e-7) + 1e-9);
    if (f.cellWidth_[i] > lim) r.fail("C18:factor-cell-wider-than-factor", "cell " + std::to_string(i) + " width " + std::to_string(c0.cellWidth_[i]) + " factor " + std::to_string(fac[i]) + " -> " + std::to_string(f.cellWidth_[i]));
  }
  long long avail = availArea(c0, margin);
  std::string sig = "F";
  if (avail > 0 && a0 > 0) {
    double d0 = (double)a0 / avail;
    if (d0 < maxD) {
      if ((double)a1 > maxD * avail * (1 + 1e-6) + nMov) r.fail("C18:factor-over-density-cap", "movable area " + std::to_string(a1) + " cap*available " + std::to_string(maxD * avail) + " movable cells " + std::to_string(nMov));
      sig += "u";
    } else {
      if (a1 != a0) r.fail("C18:factor-changed-when-already-dense", "");
      sig += "d";
    }
  } else {
    if (a1 != a0) r.fail("C18:factor-changed-with-no-area", "");
    sig += "0";
  }
  r.nontrivial = widened > 0;
  Features ft = features(c0);
  r.sig = sig + (margin > 0 ? "m" : "-") + ft.str();
}

static void congestionCase(Rng &rng, CaseResult &r) {
  Circuit c = genExpandCircuit(rng);
  Rectangle area = c.computePlacementArea();
  int nreg = (int)rng.range(0, 8);
  std::vector<Circuit::CongestionRegion> map;
  for (int k = 0; k < nreg; ++k) {
    int a = (int)rng.range(area.minX - 10, area.maxX + 5), b = (int)rng.range(area.minY - 10, area.maxY + 5);
    if (rng.chance(0.4) && c.nbCells() > 0) {
      // a region whose lower-left corner lies inside (or on the edge of) the placed footprint of some cell
      int cell = (int)rng.range(0, c.nbCells() - 1);
      a = c.cellX_[cell] + (int)rng.range(0, std::max(0, pW(c, cell)));
      b = c.cellY_[cell] + (int)rng.range(0, std::max(0, pH(c, cell))) - (rng.chance(0.5) ? (int)rng.range(0, std::max(1, pH(c, cell))) : 0);
    }
    Rectangle reg(a, a + (int)rng.range(1, std::max(2, area.width())), b, b + (int)rng.range(1, std::max(2, area.height())));
    // a congested track or bin edge given as a line (no width or no height): it still crosses the interior of cells
    if (rng.chance(0.1)) { if (rng.chance(0.5)) reg.maxX = reg.minX; else reg.maxY = reg.minY; }
    float cong = rng.chance(0.3) ? (float)rng.unif(0.0, 1.0) : (rng.chance(0.1) ? 1.0f : (float)rng.unif(1.0, 3.0));
    map.emplace_back(reg, cong);
  }
  bool layered = rng.chance(0.4);
  if (layered) {
    // congestion maps as a router reports them: the same grid of bins once per layer / direction, concatenated, so that several
    // entries carry exactly the same rectangle with different values (in either order)
    int gx = (int)rng.range(1, 6), gy = (int)rng.range(1, 6), layers = (int)rng.range(1, 3);
    int bw = std::max(1, area.width() / gx + (int)rng.range(0, 2)), bh = std::max(1, area.height() / gy + (int)rng.range(0, 2));
    for (int l = 0; l < layers; ++l)
      for (int i = 0; i < gx; ++i)
        for (int j = 0; j < gy; ++j) {
          if (rng.chance(0.3)) continue;
          Rectangle reg(area.minX + i * bw, area.minX + (i + 1) * bw, area.minY + j * bh, area.minY + (j + 1) * bh);
          float cong = rng.chance(0.4) ? (float)rng.unif(0.0, 1.0) : (float)rng.unif(1.0, 3.0);
          map.emplace_back(reg, cong);
        }
    if (rng.chance(0.3)) for (int i = (int)map.size() - 1; i > 0; --i) std::swap(map[i], map[rng.range(0, i)]);
    nreg = (int)std::min<size_t>(map.size(), 9);
  }
  float fixedPenalty = rng.chance(0.5) ? 0.0f : (float)rng.unif(0.0, 2.0), penaltyFactor = rng.chance(0.5) ? 1.0f : (float)rng.unif(1.0, 4.0);
  if (r.needSample()) {
    vf::J j = vf::J::obj();
    vf::J regs = vf::J::arr();
    for (auto &m : map) { vf::J x = vf::J::arr(); x.v(m.first.minX).v(m.first.maxX).v(m.first.minY).v(m.first.maxY).v((double)m.second); regs.raw(x.str()); }
    j.kv("api", "computeCellExpansion").kv("fixedPenalty", (double)fixedPenalty).kv("penaltyFactor", (double)penaltyFactor).kraw("regions", regs.str()).kraw("circuit", circuitJson(c));
    r.sample = j.str();
  }
  if (r.dumpOnly) return;
  std::vector<float> got;
  try {
    got = c.computeCellExpansion(map, fixedPenalty, penaltyFactor);
  } catch (const std::exception &e) {
    r.fail("C18:congestion-threw", e.what());
    return;
  }
  if ((int)got.size() != c.nbCells()) { r.fail("C18:congestion-size", ""); return; }
  int expanded = 0;
  for (int i = 0; i < c.nbCells(); ++i) {
    double exp = 1.0;
    long long x0 = c.cellX_[i], x1 = x0 + pW(c, i), y0 = c.cellY_[i], y1 = y0 + pH(c, i);
    bool degenerate = x1 <= x0 || y1 <= y0;
    if (!c.cellIsFixed_[i])
      for (auto &m : map) {
        if (!(m.second > 1.0f)) continue;
        if (x0 < m.first.maxX && m.first.minX < x1 && y0 < m.first.maxY && m.first.minY < y1) exp = std::max(exp, ((double)m.second - 1.0) * penaltyFactor + fixedPenalty + 1.0);
      }
    if (degenerate && !c.cellIsFixed_[i]) continue;  // "intersects" is not meaningful for empty cells
    if (std::fabs(got[i] - exp) > 1e-5 * exp) r.fail("C18:congestion-factor", "cell " + std::to_string(i) + (c.cellIsFixed_[i] ? " (fixed)" : "") + " got " + std::to_string(got[i]) + " expected " + std::to_string(exp));
    if (exp > 1.0) ++expanded;
  }
  r.nontrivial = expanded > 0;
  r.sig = "G" + std::to_string(nreg) + "e" + std::to_string(std::min(expanded, 9)) + (fixedPenalty > 0 ? "p" : "-") + (penaltyFactor > 1 ? "f" : "-") + (layered ? "L" : "");
}

int main(int argc, char **argv) {
  std::vector<vf::Part> parts;
  parts.push_back({"c18.density", [](uint64_t, Rng &rng, CaseResult &r) { densityCase(rng, r); }, 10});
  parts.push_back({"c18.factor", [](uint64_t, Rng &rng, CaseResult &r) { factorCase(rng, r); }, 10});
  parts.push_back({"c18.congestion", [](uint64_t, Rng &rng, CaseResult &r) { congestionCase(rng, r); }, 10});
  return vf::runMain(argc, argv, parts);
}
