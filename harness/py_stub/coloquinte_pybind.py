"""Pure-Python stand-in for the compiled coloquinte_pybind module (pybind11 is not installed in this sandbox).
It provides exactly what pycoloquinte/coloquinte.py needs at import time and in Circuit.read_ispd: enums with
__members__, Rectangle, Row, parameter classes and an attribute-bag Circuit base class that records add_net calls."""
import enum


class CellOrientation(enum.Enum):
    N = 0
    S = 1
    W = 2
    E = 3
    FN = 4
    FS = 5
    FW = 6
    FE = 7


class CellRowPolarity(enum.Enum):
    ANY = 0
    SAME = 1
    OPPOSITE = 2
    NW = 3
    SE = 4


class LegalizationModel(enum.Enum):
    L1 = 0
    L2 = 1
    LInf = 2
    L1Squared = 3
    L2Squared = 4
    LInfSquared = 5


class NetModel(enum.Enum):
    BoundToBound = 0
    Star = 1
    Clique = 2
    LightStar = 3


class PlacementStep(enum.Enum):
    LowerBound = 0
    UpperBound = 1
    Detailed = 2
    PenaltyUpdate = 3


class ColoquinteParameters:
    pass


class GlobalPlacerParameters:
    pass


class LegalizationParameters:
    pass


class DetailedPlacerParameters:
    pass


class Rectangle:
    def __init__(self, min_x, max_x, min_y, max_y):
        self.min_x, self.max_x, self.min_y, self.max_y = min_x, max_x, min_y, max_y

    @property
    def height(self):
        return self.max_y - self.min_y

    @property
    def width(self):
        return self.max_x - self.min_x


class Row(Rectangle):
    def __init__(self, area, orientation):
        Rectangle.__init__(self, area.min_x, area.max_x, area.min_y, area.max_y)
        self.orientation = orientation


class Circuit:
    def __init__(self, nb_cells):
        self.nb_cells = nb_cells
        self.nets = []
        self.cell_row_polarity = [CellRowPolarity.ANY] * nb_cells
        self.rows = []

    def add_net(self, cells, x_offsets, y_offsets, weight=1.0):
        self.nets.append((list(cells), list(x_offsets), list(y_offsets)))

    @property
    def row_height(self):
        return self.rows[0].height

    def check(self):
        pass
