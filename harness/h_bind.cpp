// C20 (b): the real pycoloquinte/module.cpp is compiled against the recording pybind11 stand-in; its PYBIND11_MODULE
// body is executed and every registration (python name, C++ entity) is compared with the entity of the same name.
// The expectation table is built from the C++ names: python name = camelToSnake(C++ member name); enumerator python
// name = enumerator identifier. Exceptions to the naming rule are listed explicitly.
#include <pybind11/pybind11.h>

#include <map>

#include "coloquinte.hpp"
#include "circ.hpp"
#include "vf.hpp"

using namespace coloquinte;
using vf::CaseResult;
using vf::Rng;
namespace py = pybind11;

void pybind11_init_coloquinte_pybind(pybind11::module_ &m);

static std::string camelToSnake(const std::string &s) {
  std::string o;
  for (char c : s) {
    if (c >= 'A' && c <= 'Z') { o += '_'; o += (char)(c - 'A' + 'a'); } else o += c;
  }
  return o;
}

struct Expect {
  std::string scope, name, kind;
  long long ev;
  std::string b1, b2;
  std::string cpp;
};

static std::vector<Expect> expectations() {
  std::vector<Expect> e;
#define EV(PyScope, Type, Name) e.push_back({PyScope, #Name, "enum", (long long)Type::Name, "", "", #Type "::" #Name})
#define RW(PyScope, Type, Member) e.push_back({PyScope, camelToSnake(#Member), "readwrite", 0, py::rawBytes(&Type::Member), "", #Type "::" #Member})
#define PRO(PyScope, Type, Getter) e.push_back({PyScope, camelToSnake(#Getter), "property_ro", 0, py::rawBytes(&Type::Getter), "", #Type "::" #Getter})
#define PROX(PyScope, PyName, Type, Getter) e.push_back({PyScope, PyName, "property_ro", 0, py::rawBytes(&Type::Getter), "", #Type "::" #Getter})
#define PRW(PyScope, Type, Getter, Setter) \
  static_assert(true, ""); \
  e.push_back({PyScope, camelToSnake(#Getter), "property", 0, py::rawBytes(&Type::Getter), py::rawBytes(&Type::Setter), #Type "::" #Getter "/" #Setter})
#define DEF(PyScope, Type, Method) e.push_back({PyScope, camelToSnake(#Method), "def", 0, py::rawBytes(&Type::Method), "", #Type "::" #Method})
#define DEFX(PyScope, PyName, Type, Method) e.push_back({PyScope, PyName, "def", 0, py::rawBytes(&Type::Method), "", #Type "::" #Method})
#define LAMBDA(PyScope, PyName) e.push_back({PyScope, PyName, "def", 0, "", "", "lambda"})
#define CLS(PyName) e.push_back({PyName, PyName, "class", 0, "", "", PyName})

  CLS("Rectangle"); CLS("Row"); CLS("ColoquinteParameters"); CLS("ContinuousModelParameters"); CLS("RoughLegalizationParameters");
  CLS("PenaltyParameters"); CLS("GlobalPlacerParameters"); CLS("LegalizationParameters"); CLS("DetailedPlacerParameters"); CLS("Circuit");

  EV("CellOrientation", CellOrientation, N); EV("CellOrientation", CellOrientation, S); EV("CellOrientation", CellOrientation, W); EV("CellOrientation", CellOrientation, E);
  EV("CellOrientation", CellOrientation, FN); EV("CellOrientation", CellOrientation, FS); EV("CellOrientation", CellOrientation, FW); EV("CellOrientation", CellOrientation, FE);
  EV("CellRowPolarity", CellRowPolarity, SAME); EV("CellRowPolarity", CellRowPolarity, OPPOSITE); EV("CellRowPolarity", CellRowPolarity, ANY);
  EV("CellRowPolarity", CellRowPolarity, NW); EV("CellRowPolarity", CellRowPolarity, SE);
  EV("LegalizationModel", LegalizationModel, L1); EV("LegalizationModel", LegalizationModel, L2); EV("LegalizationModel", LegalizationModel, LInf);
  EV("LegalizationModel", LegalizationModel, L1Squared); EV("LegalizationModel", LegalizationModel, L2Squared); EV("LegalizationModel", LegalizationModel, LInfSquared);
  EV("NetModel", NetModelOption, BoundToBound); EV("NetModel", NetModelOption, Star); EV("NetModel", NetModelOption, Clique); EV("NetModel", NetModelOption, LightStar);
  EV("PlacementStep", PlacementStep, LowerBound); EV("PlacementStep", PlacementStep, UpperBound); EV("PlacementStep", PlacementStep, Detailed); EV("PlacementStep", PlacementStep, PenaltyUpdate);

  RW("Rectangle", Rectangle, minX); RW("Rectangle", Rectangle, maxX); RW("Rectangle", Rectangle, minY); RW("Rectangle", Rectangle, maxY);
  PRO("Rectangle", Rectangle, height); PRO("Rectangle", Rectangle, width);
  DEFX("Rectangle", "__str__", Rectangle, toString); DEFX("Rectangle", "__repr__", Rectangle, toString);
  RW("Row", Row, orientation);

  RW("ColoquinteParameters", ColoquinteParameters, global); RW("ColoquinteParameters", ColoquinteParameters, legalization); RW("ColoquinteParameters", ColoquinteParameters, detailed);
  DEF("ColoquinteParameters", ColoquinteParameters, check); DEFX("ColoquinteParameters", "__str__", ColoquinteParameters, toString); DEFX("ColoquinteParameters", "__repr__", ColoquinteParameters, toString);

  RW("ContinuousModelParameters", ContinuousModelParameters, netModel); RW("ContinuousModelParameters", ContinuousModelParameters, approximationDistance);
  RW("ContinuousModelParameters", ContinuousModelParameters, approximationDistanceUpdateFactor); RW("ContinuousModelParameters", ContinuousModelParameters, maxNbConjugateGradientSteps);
  RW("ContinuousModelParameters", ContinuousModelParameters, conjugateGradientErrorTolerance);
  DEF("ContinuousModelParameters", ContinuousModelParameters, check); DEFX("ContinuousModelParameters", "__str__", ContinuousModelParameters, toString); DEFX("ContinuousModelParameters", "__repr__", ContinuousModelParameters, toString);

  RW("RoughLegalizationParameters", RoughLegalizationParameters, costModel); RW("RoughLegalizationParameters", RoughLegalizationParameters, nbSteps); RW("RoughLegalizationParameters", RoughLegalizationParameters, binSize);
  RW("RoughLegalizationParameters", RoughLegalizationParameters, lineReoptSize); RW("RoughLegalizationParameters", RoughLegalizationParameters, lineReoptOverlap);
  RW("RoughLegalizationParameters", RoughLegalizationParameters, diagReoptSize); RW("RoughLegalizationParameters", RoughLegalizationParameters, diagReoptOverlap);
  RW("RoughLegalizationParameters", RoughLegalizationParameters, squareReoptSize); RW("RoughLegalizationParameters", RoughLegalizationParameters, squareReoptOverlap);
  RW("RoughLegalizationParameters", RoughLegalizationParameters, targetBlending); RW("RoughLegalizationParameters", RoughLegalizationParameters, unidimensionalTransport);
  RW("RoughLegalizationParameters", RoughLegalizationParameters, quadraticPenalty); RW("RoughLegalizationParameters", RoughLegalizationParameters, sideMargin);
  RW("RoughLegalizationParameters", RoughLegalizationParameters, coarseningLimit);
  DEF("RoughLegalizationParameters", RoughLegalizationParameters, check); DEFX("RoughLegalizationParameters", "__str__", RoughLegalizationParameters, toString); DEFX("RoughLegalizationParameters", "__repr__", RoughLegalizationParameters, toString);

  RW("PenaltyParameters", PenaltyParameters, cutoffDistance); RW("PenaltyParameters", PenaltyParameters, cutoffDistanceUpdateFactor); RW("PenaltyParameters", PenaltyParameters, areaExponent);
  RW("PenaltyParameters", PenaltyParameters, initialValue); RW("PenaltyParameters", PenaltyParameters, updateFactor); RW("PenaltyParameters", PenaltyParameters, targetBlending);
  DEF("PenaltyParameters", PenaltyParameters, check); DEFX("PenaltyParameters", "__str__", PenaltyParameters, toString); DEFX("PenaltyParameters", "__repr__", PenaltyParameters, toString);

  RW("GlobalPlacerParameters", GlobalPlacerParameters, roughLegalization); RW("GlobalPlacerParameters", GlobalPlacerParameters, continuousModel); RW("GlobalPlacerParameters", GlobalPlacerParameters, penalty);
  RW("GlobalPlacerParameters", GlobalPlacerParameters, maxNbSteps); RW("GlobalPlacerParameters", GlobalPlacerParameters, nbInitialSteps);
  RW("GlobalPlacerParameters", GlobalPlacerParameters, nbStepsBeforeRoughLegalization); RW("GlobalPlacerParameters", GlobalPlacerParameters, gapTolerance);
  RW("GlobalPlacerParameters", GlobalPlacerParameters, distanceTolerance); RW("GlobalPlacerParameters", GlobalPlacerParameters, exportBlending); RW("GlobalPlacerParameters", GlobalPlacerParameters, noise);
  DEF("GlobalPlacerParameters", GlobalPlacerParameters, check); DEFX("GlobalPlacerParameters", "__str__", GlobalPlacerParameters, toString); DEFX("GlobalPlacerParameters", "__repr__", GlobalPlacerParameters, toString);

  RW("LegalizationParameters", LegalizationParameters, costModel); RW("LegalizationParameters", LegalizationParameters, orderingHeight);
  RW("LegalizationParameters", LegalizationParameters, orderingWidth); RW("LegalizationParameters", LegalizationParameters, orderingY);
  DEF("LegalizationParameters", LegalizationParameters, check); DEFX("LegalizationParameters", "__str__", LegalizationParameters, toString); DEFX("LegalizationParameters", "__repr__", LegalizationParameters, toString);

  RW("DetailedPlacerParameters", DetailedPlacerParameters, nbPasses); RW("DetailedPlacerParameters", DetailedPlacerParameters, localSearchNbNeighbours);
  RW("DetailedPlacerParameters", DetailedPlacerParameters, localSearchNbRows); RW("DetailedPlacerParameters", DetailedPlacerParameters, reorderingNbRows);
  RW("DetailedPlacerParameters", DetailedPlacerParameters, reorderingMaxNbCells); RW("DetailedPlacerParameters", DetailedPlacerParameters, shiftNbRows);
  RW("DetailedPlacerParameters", DetailedPlacerParameters, shiftMaxNbCells);
  DEF("DetailedPlacerParameters", DetailedPlacerParameters, check); DEFX("DetailedPlacerParameters", "__str__", DetailedPlacerParameters, toString); DEFX("DetailedPlacerParameters", "__repr__", DetailedPlacerParameters, toString);

  PRO("Circuit", Circuit, nbCells); PRO("Circuit", Circuit, nbNets); PRO("Circuit", Circuit, nbRows); PRO("Circuit", Circuit, nbPins);
  PRW("Circuit", Circuit, cellWidth, setCellWidth); PRW("Circuit", Circuit, cellHeight, setCellHeight); PRW("Circuit", Circuit, cellIsFixed, setCellIsFixed);
  PRW("Circuit", Circuit, cellIsObstruction, setCellIsObstruction); PRW("Circuit", Circuit, cellRowPolarity, setCellRowPolarity); PRW("Circuit", Circuit, cellX, setCellX);
  PRW("Circuit", Circuit, cellY, setCellY); PRW("Circuit", Circuit, cellOrientation, setCellOrientation);
  PRO("Circuit", Circuit, cellPlacement); PROX("Circuit", "placement_area", Circuit, computePlacementArea); PRO("Circuit", Circuit, rowHeight);
  PRW("Circuit", Circuit, rows, setRows);
  DEF("Circuit", Circuit, addNet); DEF("Circuit", Circuit, hpwl); DEF("Circuit", Circuit, setupRows); DEF("Circuit", Circuit, place);
  LAMBDA("Circuit", "place_global"); LAMBDA("Circuit", "legalize"); LAMBDA("Circuit", "place_detailed");
  DEF("Circuit", Circuit, expandCellsToDensity); DEF("Circuit", Circuit, expandCellsByFactor); DEF("Circuit", Circuit, computeCellExpansion);
  DEF("Circuit", Circuit, check); DEF("Circuit", Circuit, report); DEF("Circuit", Circuit, exportIspd);
  DEFX("Circuit", "__str__", Circuit, toString); DEFX("Circuit", "__repr__", Circuit, toString);
  return e;
}

static const std::vector<py::BindingRecord> &observed() {
  static bool done = false;
  if (!done) {
    py::module_ m;
    pybind11_init_coloquinte_pybind(m);
    done = true;
  }
  return py::records();
}

static void bindingCase(uint64_t idx, CaseResult &r) {
  static std::vector<Expect> exp = expectations();
  const auto &obs = observed();
  auto key = [](const std::string &s, const std::string &n) { return s + "." + n; };
  std::map<std::string, const Expect *> byName;
  for (auto &e : exp) byName[key(e.scope, e.name)] = &e;
  if (idx == 255) {
    // global conditions: nothing missing, nothing registered twice
    if (r.needSample()) r.sample = vf::J::obj().kv("what", "whole-table conditions").kv("observed_registrations", (long long)obs.size()).kv("expected", (long long)exp.size()).str();
    if (r.dumpOnly) return;
    std::map<std::string, int> seen;
    for (auto &o : obs) seen[key(o.scope, o.name)]++;
    std::string missing, dup;
    for (auto &e : exp) if (!seen.count(key(e.scope, e.name))) missing += key(e.scope, e.name) + " ";
    for (auto &s : seen) if (s.second > 1) dup += s.first + " ";
    if (!dup.empty()) r.fail("C20:python-name-bound-twice", dup);
    if (!missing.empty()) { r.inconclusive = true; r.count("expected_bindings_not_registered"); r.fail("harness:binding-table-shrank", "bindings of the pinned module are no longer registered (update the expectation table if this is intended): " + missing); }
    r.count("registrations_observed", (long long)obs.size());
    r.nontrivial = true;
    r.sig = "table";
    return;
  }
  if (idx >= obs.size()) { r.sig = "none"; return; }
  const py::BindingRecord &o = obs[idx];
  if (r.needSample()) r.sample = vf::J::obj().kv("python_scope", o.scope).kv("python_name", o.name).kv("kind", o.kind).kv("enum_value", o.enumValue).kv("cpp_type", o.typeName).str();
  if (r.dumpOnly) return;
  r.nontrivial = true;
  r.sig = key(o.scope, o.name);
  r.count(std::string("kind_") + o.kind);
  auto it = byName.find(key(o.scope, o.name));
  if (it == byName.end()) {
    // unknown python name: is it a known entity under a different name?
    for (auto &e : exp) {
      if (e.scope != o.scope || e.kind != o.kind) continue;
      bool same = o.kind == "enum" ? false : (!o.memberBytes.empty() && o.memberBytes == e.b1);
      if (same) { r.fail("C20:binding-name-differs-from-entity", "python name " + key(o.scope, o.name) + " is bound to C++ " + e.cpp + " (whose python name should be " + e.name + ")"); return; }
    }
    r.inconclusive = true;
    r.fail("harness:unknown-binding", "python name " + key(o.scope, o.name) + " (" + o.kind + ") is not in the expectation table: extend harness/h_bind.cpp");
    return;
  }
  const Expect &e = *it->second;
  if (e.kind != o.kind) { r.fail("C20:binding-kind-changed", key(o.scope, o.name) + " registered as " + o.kind + ", expected " + e.kind); return; }
  if (o.kind == "enum") {
    if (o.enumValue != e.ev) r.fail("C20:enum-value-bound-to-another-enumerator", key(o.scope, o.name) + " is bound to value " + std::to_string(o.enumValue) + " but C++ " + e.cpp + " is " + std::to_string(e.ev));
  } else if (o.kind == "class") {
  } else if (e.cpp == "lambda") {
    if (o.isMemberPointer) r.fail("C20:binding-mismatch", key(o.scope, o.name) + " expected a wrapper function");
  } else {
    if (o.memberBytes != e.b1) r.fail("C20:binding-mismatch", key(o.scope, o.name) + " is not bound to C++ " + e.cpp);
    if (o.kind == "property" && o.memberBytes2 != e.b2) r.fail("C20:binding-mismatch", key(o.scope, o.name) + " setter is not bound to C++ " + e.cpp);
  }
}

// The three placement entry points are bound through wrapper lambdas (they release the interpreter lock): run each registered
// wrapper on a small circuit and compare its effect with the C++ member the Python name promises.
static void wrapperCase(uint64_t idx, Rng &rng, CaseResult &r) {
  (void)observed();
  struct W { const char *py; int which; };
  static const W wanted[3] = {{"Circuit.place_global", 0}, {"Circuit.legalize", 1}, {"Circuit.place_detailed", 2}};
  const W &wnt = wanted[idx % 3];
  vfc::GenOpts o = vfc::makeProfile(rng, "general");
  o.maxCells = 15;
  o.minRowWidth4H = true;
  Circuit c0 = vfc::genCircuit(rng, o);
  ColoquinteParameters p((int)rng.range(1, 4), (int)rng.range(0, 50));
  p.global.maxNbSteps = 4;
  if (r.needSample()) r.sample = vf::J::obj().kv("what", "wrapper lambda run against the member of the same name").kv("python_name", wnt.py).kraw("circuit", vfc::circuitJson(c0)).str();
  if (r.dumpOnly) return;
  const py::ErasedCall3 *fn = nullptr;
  for (auto &l : py::lambdas3()) if (l.first == wnt.py) fn = &l.second;
  if (!fn) { r.inconclusive = true; r.fail("harness:wrapper-not-registered", std::string(wnt.py) + " is not registered as a three-argument wrapper any more: extend harness/h_bind.cpp"); return; }
  Circuit a = c0, b = c0;
  int cbA = 0, cbB = 0;
  std::optional<PlacementCallback> ca = PlacementCallback([&](PlacementStep) { ++cbA; }), cb = PlacementCallback([&](PlacementStep) { ++cbB; });
  std::string ea, eb;
  try { (*fn)(&a, &p, &ca); } catch (const std::exception &e) { ea = e.what(); }
  try { if (wnt.which == 0) b.placeGlobal(p, cb); else if (wnt.which == 1) b.legalize(p, cb); else b.placeDetailed(p, cb); } catch (const std::exception &e) { eb = e.what(); }
  if (ea != eb || a.cellX_ != b.cellX_ || a.cellY_ != b.cellY_ || a.cellOrientation_ != b.cellOrientation_ || cbA != cbB)
    r.fail("C20:wrapper-does-not-call-the-member-of-its-name", std::string(wnt.py) + " behaves differently from the C++ member it is named after (callbacks " + std::to_string(cbA) + " vs " + std::to_string(cbB) + (ea != eb ? ", outcome '" + ea + "' vs '" + eb + "'" : "") + ")");
  r.count("wrappers_run");
  r.nontrivial = true;
  r.sig = wnt.py;
}

int main(int argc, char **argv) {
  std::vector<vf::Part> parts;
  parts.push_back({"c20.wrappers", [](uint64_t idx, Rng &rng, CaseResult &r) { wrapperCase(idx, rng, r); }, 60});
  parts.push_back({"c20.bindings", [](uint64_t idx, Rng &, CaseResult &r) { bindingCase(idx, r); }, 30});
  return vf::runMain(argc, argv, parts);
}
