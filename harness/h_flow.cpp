// Flow harness: Circuit::legalize / placeDetailed / placeGlobal on generated circuits under monitors.
// Parts (one family per property):  c01.* c02.api.* c03.* c04.* c05.* c07.* c10.* c11.*
#include <stdexcept>

#include "circ.hpp"
#include "place_detailed/legalizer.hpp"
#include "place_detailed/abacus_legalizer.hpp"
#include "place_detailed/tetris_legalizer.hpp"

using namespace coloquinte;
using namespace vfc;
using vf::CaseResult;
using vf::Rng;

enum : unsigned { O_C01 = 1, O_C02 = 2, O_C03 = 4, O_C04 = 8, O_C05 = 16, O_C11 = 32 };

static std::string sampleJson(const Circuit &c0, const std::string &profile, const std::string &pdesc, const std::string &extra = "") {
  vf::J o = vf::J::obj();
  o.kv("profile", profile).kv("params", pdesc);
  if (!extra.empty()) o.kv("note", extra);
  o.kraw("circuit", circuitJson(c0));
  return o.str();
}

static int countMoved(const Circuit &a, const Circuit &b) {
  int n = 0;
  for (int i = 0; i < a.nbCells(); ++i)
    if (a.cellX_[i] != b.cellX_[i] || a.cellY_[i] != b.cellY_[i] || a.cellOrientation_[i] != b.cellOrientation_[i]) ++n;
  return n;
}

static long long frozenHpwl(const Circuit &state, const std::vector<CellOrientation> &orient) {
  Circuit f = state;
  f.cellOrientation_ = orient;
  return refHpwl(f);
}

// Is there a polarised cell carrying pins whose orientation in `s` differs from the legalized one?
static bool polarisedReoriented(const Circuit &s, const std::vector<CellOrientation> &legO) {
  std::vector<char> hasPin(s.nbCells(), 0);
  for (int c : s.pinCells_) hasPin[c] = 1;
  for (int i = 0; i < s.nbCells(); ++i)
    if (!s.cellIsFixed_[i] && hasPin[i] && s.cellRowPolarity_[i] != CellRowPolarity::ANY && s.cellOrientation_[i] != legO[i]) return true;
  return false;
}

// ------------------------------------------------------------------------------------------------
// legalize + placeDetailed under the oracles selected by mask
static void flowCase(Rng &rng, CaseResult &r, const std::string &profile, unsigned mask) {
  GenOpts o = makeProfile(rng, profile);
  if (mask == O_C11) { o.multiRow = false; }
  Circuit c0 = genCircuit(rng, o);
  if (profile == "faraway") randomFarTranslation(rng, c0);
  std::string pdesc;
  ColoquinteParameters params = genParams(rng, true, &pdesc);
  Features f = features(c0);
  bool wantDetailed = mask & (O_C02 | O_C03 | O_C04 | O_C05);
  bool legCallback = rng.chance(0.5);
  bool detCallback = !rng.chance(0.25);
  if (r.dumpOnly) { r.sample = sampleJson(c0, profile, pdesc); return; }

  // ---------------- legalization
  Circuit c = c0;
  bool legOk = false;
  std::string legErr, cbLegErr;
  int legCbCount = 0;
  try {
    if (legCallback) {
      PlacementCallback cb = [&](PlacementStep) {
        ++legCbCount;
        if (mask & O_C01) { std::string e = checkLegal(c); if (!e.empty() && cbLegErr.empty()) cbLegErr = e; }
      };
      c.legalize(params, cb);
    } else {
      c.legalize(params);
    }
    legOk = true;
  } catch (const std::exception &e) {
    legErr = e.what();
  } catch (...) {
    r.fail("non-std-exception:legalize", "legalize threw something that is not a std::exception");
  }
  std::string outcome = legOk ? "ok" : "throw";
  r.count(legOk ? "legalize_returned" : "legalize_threw");
  if (mask & O_C01) {
    if (legOk) {
      std::string e = checkLegal(c);
      if (!e.empty()) r.fail("C01:illegal-after-legalize", e);
      if (!cbLegErr.empty()) r.fail("C01:illegal-in-legalize-callback", cbLegErr);
      if (legCallback && legCbCount != 1) r.fail("C01:legalize-callback-count", "callback invoked " + std::to_string(legCbCount) + " times");
      int mv = countMoved(c0, c);
      r.count("cells_moved_by_legalize", mv);
      r.nontrivial = mv > 0;
    } else {
      r.nontrivial = true;
      if (trivialLegalization(c0)) r.fail("C01:trivial-instance-threw", "legalize threw '" + legErr + "' on a trivially feasible instance");
    }
    if (trivialLegalization(c0)) { r.count("trivial_instances"); outcome += "T"; }
    r.sig = f.str() + ":" + outcome;
  }
  if ((mask & O_C03)) {
    std::string d = frameDiff(c0, c, false);
    if (!d.empty()) r.fail("C03:frame-changed-by-legalize", d + (legOk ? "" : " (call threw)"));
    if (!legOk && !samePlacement(c0, c)) r.fail("C03:placement-changed-by-failed-legalize", "x/y/orientation differ after legalize threw: " + legErr);
  }
  if ((mask & O_C04) && legOk) {
    std::string e = checkPolarity(c, c0.cellOrientation_);
    if (!e.empty()) r.fail("C04:after-legalize", e);
  }
  // ---------------- idempotence (C11)
  if ((mask & O_C11)) {
    bool inside = params.legalization.orderingWidth >= 0.0 && params.legalization.orderingWidth <= 1.0;
    r.sig = f.str() + (inside ? ":in" : ":out") + ":" + outcome;
    if (legOk && !f.multiRow) {
      r.count(inside ? "relegalized_orderingWidth_in_0_1" : "relegalized_orderingWidth_outside_0_1");
      Circuit c2 = c;
      try {
        c2.legalize(params);
        int mv = 0;
        for (int i = 0; i < c.nbCells(); ++i) if (c2.cellX_[i] != c.cellX_[i] || c2.cellY_[i] != c.cellY_[i]) ++mv;
        r.nontrivial = f.nMov >= 2;
        if (mv) {
          r.count(inside ? "moved_inside" : "moved_outside");
          r.fail(inside ? "C11:moved:orderingWidth-inside-0-1" : "C11:moved:orderingWidth-outside-0-1",
                 std::to_string(mv) + " cells moved when re-legalizing a legal placement; orderingWidth=" + std::to_string(params.legalization.orderingWidth));
        }
      } catch (const std::exception &e) {
        r.fail(inside ? "C11:relegalize-threw:orderingWidth-inside-0-1" : "C11:relegalize-threw:orderingWidth-outside-0-1", std::string(e.what()) + "; orderingWidth=" + std::to_string(params.legalization.orderingWidth));
      }
    }
  }
  // ---------------- detailed placement
  if (wantDetailed) {
    Circuit d = c0;
    int ncb = 0;
    std::string cbLegal, cbPol, cbTall, cbFrame;
    std::vector<long long> hs, fs;
    std::vector<char> reor;
    Circuit firstState = c0;
    int H = c0.rows_[0].height();
    bool hpwlMismatch = false;
    PlacementCallback cb = [&](PlacementStep step) {
      ++ncb;
      if (step != PlacementStep::Detailed) cbFrame = "callback with a non-Detailed step during placeDetailed";
      if (ncb == 1) firstState = d;
      if (mask & O_C02) {
        std::string e = checkLegal(d);
        if (!e.empty() && cbLegal.empty()) cbLegal = "callback " + std::to_string(ncb) + ": " + e;
        for (int i = 0; i < d.nbCells(); ++i)
          if (!d.cellIsFixed_[i] && pH(firstState, i) != H && (d.cellX_[i] != firstState.cellX_[i] || d.cellY_[i] != firstState.cellY_[i] || d.cellOrientation_[i] != firstState.cellOrientation_[i]) && cbTall.empty())
            cbTall = "callback " + std::to_string(ncb) + ": multi-row cell " + std::to_string(i) + " moved";
      }
      if (mask & O_C04) {
        std::string e = checkPolarity(d, c0.cellOrientation_);
        if (!e.empty() && cbPol.empty()) cbPol = "callback " + std::to_string(ncb) + ": " + e;
      }
      if (mask & O_C05) {
        long long h = d.hpwl();
        if (h != refHpwl(d)) hpwlMismatch = true;
        hs.push_back(h);
        fs.push_back(frozenHpwl(d, firstState.cellOrientation_));
        reor.push_back(polarisedReoriented(d, firstState.cellOrientation_));
      }
      if (mask & O_C03) {
        std::string e = frameDiff(c0, d, false);
        if (!e.empty() && cbFrame.empty()) cbFrame = "callback " + std::to_string(ncb) + ": " + e;
      }
    };
    bool detOk = false;
    std::string detErr;
    try {
      if (detCallback) d.placeDetailed(params, cb);
      else d.placeDetailed(params);
      detOk = true;
    } catch (const std::exception &e) {
      detErr = e.what();
    } catch (...) {
      r.fail("non-std-exception:placeDetailed", "placeDetailed threw something that is not a std::exception");
    }
    r.count(detOk ? "detailed_returned" : "detailed_threw");
    r.count("detailed_callbacks", ncb);
    int movedVsLeg = (detOk && legOk) ? countMoved(c, d) : 0;
    r.count("cells_moved_by_detailed", movedVsLeg);
    std::string sigD = f.str() + ":" + outcome + (detOk ? ":d" : ":dx") + (detCallback ? "c" : "n") + std::to_string(std::min(ncb, 9)) + (movedVsLeg ? "m" : "s");
    if (mask & O_C02) {
      r.sig = sigD;
      r.nontrivial = detOk && movedVsLeg > 0;
      if (legOk && !detOk) r.fail("C02:detailed-threw-on-legalizable", "legalize alone succeeds but placeDetailed threw: " + detErr);
      if (!cbLegal.empty()) r.fail("C02:illegal-in-callback", cbLegal);
      if (!cbTall.empty()) r.fail("C02:tall-cell-moved", cbTall);
      if (detOk) {
        std::string e = checkLegal(d);
        if (!e.empty()) r.fail("C02:illegal-on-return", e);
        if (legOk)
          for (int i = 0; i < d.nbCells(); ++i)
            if (!d.cellIsFixed_[i] && pH(c, i) != H && (d.cellX_[i] != c.cellX_[i] || d.cellY_[i] != c.cellY_[i] || d.cellOrientation_[i] != c.cellOrientation_[i])) {
              r.fail("C02:tall-cell-moved", "on return: multi-row cell " + std::to_string(i) + " is not where legalization put it");
              break;
            }
        if (detCallback && ncb >= 1 && legOk && !samePlacement(firstState, c)) r.fail("C02:first-callback-differs-from-legalize", "the first Detailed callback does not expose the legalized placement");
      }
    }
    if (mask & O_C04) {
      r.sig = sigD;
      r.nontrivial = detOk && f.polarityKinds > 0;
      if (!cbPol.empty()) r.fail("C04:in-callback", cbPol);
      if (detOk) {
        std::string e = checkPolarity(d, c0.cellOrientation_);
        if (!e.empty()) r.fail("C04:on-return", e);
      }
    }
    if (mask & O_C03) {
      r.sig = sigD + "f" + std::to_string(std::min(9, c0.nbCells() - f.nMov));
      r.nontrivial = c0.nbCells() - f.nMov > 0;
      if (!cbFrame.empty()) r.fail("C03:frame-changed-in-callback", cbFrame);
      std::string e = frameDiff(c0, d, false);
      if (!e.empty()) r.fail("C03:frame-changed-by-placeDetailed", e + (detOk ? "" : " (call threw)"));
    }
    if ((mask & O_C05) && detOk && legOk) {
      r.sig = sigD;
      if (hpwlMismatch) r.fail("C05:hpwl-differs-from-reference", "Circuit::hpwl() != reference HPWL inside a callback");
      // final state is an additional observation point
      hs.push_back(d.hpwl());
      std::vector<CellOrientation> legO = c.cellOrientation_;
      if (!detCallback) { hs.insert(hs.begin(), c.hpwl()); fs.push_back(frozenHpwl(c, legO)); reor.push_back(0); }
      fs.push_back(frozenHpwl(d, legO));
      reor.push_back(polarisedReoriented(d, legO));
      bool decreased = false;
      for (size_t i = 0; i + 1 < hs.size(); ++i) {
        if (hs[i + 1] < hs[i]) decreased = true;
        if (hs[i + 1] > hs[i]) {
          std::string m = "wirelength rose " + std::to_string(hs[i]) + " -> " + std::to_string(hs[i + 1]) + " between exposed states " + std::to_string(i + 1) + " and " + std::to_string(i + 2) + " of " + std::to_string(hs.size());
          if (fs[i + 1] > fs[i]) r.fail("C05:hpwl-increase:frozen-orientation-wirelength-rose", m + "; frozen-orientation wirelength " + std::to_string(fs[i]) + " -> " + std::to_string(fs[i + 1]));
          else if (reor[i] || reor[i + 1]) { r.count("increase_with_reoriented_polarised_cell"); r.fail("C05:hpwl-increase:polarised-cell-reoriented", m); }
          else r.fail("C05:hpwl-increase:no-reoriented-cell", m);
        }
      }
      if (d.hpwl() > c.hpwl()) {
        std::string m = "final wirelength " + std::to_string(d.hpwl()) + " exceeds legalized wirelength " + std::to_string(c.hpwl());
        long long f0 = frozenHpwl(c, legO), f1 = frozenHpwl(d, legO);
        if (f1 > f0) r.fail("C05:hpwl-increase:frozen-orientation-wirelength-rose", m);
        else if (polarisedReoriented(d, legO)) { r.count("increase_with_reoriented_polarised_cell"); r.fail("C05:hpwl-increase:polarised-cell-reoriented", m); }
        else r.fail("C05:hpwl-increase:no-reoriented-cell", m);
      }
      r.nontrivial = decreased;
      if (decreased) r.count("runs_with_decrease");
      r.count("exposed_states", (long long)hs.size());
    }
  }
  if (r.needSample()) r.sample = sampleJson(c0, profile, pdesc);
}

// ------------------------------------------------------------------------------------------------
// C11, second source of legal placements: direct construction by packing cells into free segments
static void c11Constructed(Rng &rng, CaseResult &r) {
  bool comb = rng.chance(0.15), stag = !comb && rng.chance(0.15);
  GenOpts o = makeProfile(rng, comb ? "comb" : stag ? "staggered" : rng.chance(0.25) ? "big20" : "rowhigh");
  o.multiRow = false;
  o.turned = !comb && !stag && rng.chance(0.5);
  Circuit c0 = genCircuit(rng, o);
  std::string pdesc;
  ColoquinteParameters params = genParams(rng, false, &pdesc);
  // Pack: walk the free segments, put movable cells left to right with random gaps
  std::vector<int> mov;
  for (int i = 0; i < c0.nbCells(); ++i) if (!c0.cellIsFixed_[i]) mov.push_back(i);
  for (int i = (int)mov.size() - 1; i > 0; --i) std::swap(mov[i], mov[rng.range(0, i)]);
  struct FS { int lo, hi, y; CellOrientation ro; };
  std::vector<FS> segs;
  for (auto &row : c0.rows_) for (auto s : freeSegments(c0, row)) segs.push_back({s.lo, s.hi, row.minY, row.orientation});
  for (int i = (int)segs.size() - 1; i > 0; --i) std::swap(segs[i], segs[rng.range(0, i)]);
  std::vector<int> cur(segs.size());
  for (size_t k = 0; k < segs.size(); ++k) cur[k] = segs[k].lo;
  std::vector<char> placed(c0.nbCells(), 0);
  for (int cell : mov) {
    int w = pW(c0, cell);
    for (size_t tries = 0; tries < segs.size() * 2 && !placed[cell]; ++tries) {
      size_t k = (size_t)rng.range(0, (long long)segs.size() - 1);
      CellOrientation req = requiredOrientation(c0.cellRowPolarity_[cell], segs[k].ro);
      if (req == CellOrientation::INVALID) continue;
      int gap = rng.chance(0.5) ? 0 : (int)rng.range(0, 3) * o.scale;
      if (cur[k] + gap + w > segs[k].hi) continue;
      c0.cellX_[cell] = cur[k] + gap;
      c0.cellY_[cell] = segs[k].y;
      if (req != CellOrientation::UNKNOWN) c0.cellOrientation_[cell] = req;
      cur[k] += gap + w;
      placed[cell] = 1;
    }
  }
  // cells that could not be packed are made fixed non-obstructions outside the rows' interest
  std::vector<bool> fx = c0.cellIsFixed_, ob = c0.cellIsObstruction_;
  int nPlaced = 0;
  for (int cell : mov) { if (!placed[cell]) { fx[cell] = true; ob[cell] = false; } else ++nPlaced; }
  c0.setCellIsFixed(fx);
  c0.setCellIsObstruction(ob);
  bool inside = params.legalization.orderingWidth >= 0.0 && params.legalization.orderingWidth <= 1.0;
  Features f = features(c0);
  r.sig = "K" + f.str() + (inside ? ":in" : ":out");
  if (r.dumpOnly) { r.sample = sampleJson(c0, "constructed-legal", pdesc); return; }
  if (nPlaced == 0) return;
  std::string e0 = checkLegal(c0);
  if (!e0.empty()) { r.fail("harness:constructed-placement-not-legal", e0); r.sample = sampleJson(c0, "constructed-legal", pdesc); return; }
  if (!checkPolarity(c0, c0.cellOrientation_).empty()) { r.inconclusive = true; return; }
  r.count(inside ? "constructed_orderingWidth_in_0_1" : "constructed_orderingWidth_outside_0_1");
  Circuit c = c0;
  try {
    c.legalize(params);
    int mv = 0;
    for (int i = 0; i < c.nbCells(); ++i) if (c0.cellX_[i] != c.cellX_[i] || c0.cellY_[i] != c.cellY_[i]) ++mv;
    r.nontrivial = nPlaced >= 2;
    if (mv) {
      r.count(inside ? "moved_inside" : "moved_outside");
      r.fail(inside ? "C11:moved:orderingWidth-inside-0-1" : "C11:moved:orderingWidth-outside-0-1",
             std::to_string(mv) + " cells moved when legalizing a constructed legal placement; orderingWidth=" + std::to_string(params.legalization.orderingWidth));
    }
  } catch (const std::exception &e) {
    r.fail(inside ? "C11:relegalize-threw:orderingWidth-inside-0-1" : "C11:relegalize-threw:orderingWidth-outside-0-1", std::string(e.what()) + "; orderingWidth=" + std::to_string(params.legalization.orderingWidth));
  }
  // the legalizer object itself: a second run() on the same object must leave the cells where the first one put them
  if (r.viol.empty() && inside && rng.chance(0.5)) {
    try {
      Legalizer leg = Legalizer::fromIspdCircuit(c0);
      bool staged = false;  // (runAbacus on an arbitrary subset is order-dependent by design: not used)
      leg.run(params);
      Circuit c1 = c0;
      leg.exportPlacement(c1);
      leg.run(params);
      Circuit c2 = c0;
      leg.exportPlacement(c2);
      int mv1 = 0, mv2 = 0;
      for (int i = 0; i < c0.nbCells(); ++i) { if (c0.cellX_[i] != c1.cellX_[i] || c0.cellY_[i] != c1.cellY_[i]) ++mv1; if (c1.cellX_[i] != c2.cellX_[i] || c1.cellY_[i] != c2.cellY_[i]) ++mv2; }
      if (mv1) r.fail("C11:moved:orderingWidth-inside-0-1", std::to_string(mv1) + " cells moved by Legalizer::run on a constructed legal placement" + (staged ? " (after a staged runAbacus on some cells)" : ""));
      if (mv2) r.fail("C11:second-run-of-the-legalizer-object-moved-cells", std::to_string(mv2) + " cells moved by a second run() on the same Legalizer object");
      r.count("legalizer_objects_run_twice");
    } catch (const std::exception &e) {
      r.fail("C11:relegalize-threw:orderingWidth-inside-0-1", std::string("Legalizer object: ") + e.what());
    }
  }
  if (r.needSample()) r.sample = sampleJson(c0, "constructed-legal", pdesc);
}

// ------------------------------------------------------------------------------------------------
// C07: the oracle is the process (no abort / sanitizer report / hang / non-std exception)
static void c07Case(Rng &rng, CaseResult &r, const std::string &profile, bool paramFuzz) {
  GenOpts o = makeProfile(rng, profile);
  if (profile == "big") o.maxCells = std::min(o.maxCells, 20);
  Circuit c0 = genCircuit(rng, o);
  if (profile == "degenerate" && rng.chance(0.15)) {
    // infeasible by construction: a movable macro as large as the whole row area, plus small cells
    int nr = (int)rng.range(1, 4), H = (int)rng.range(1, 6), W = (int)rng.range(4, 30), nSmall = (int)rng.range(0, 4);
    Circuit m(1 + nSmall);
    std::vector<int> w(1 + nSmall, 1), h(1 + nSmall, H), x(1 + nSmall, 0), y(1 + nSmall, 0);
    w[0] = W; h[0] = nr * H;
    if (rng.chance(0.5)) { std::swap(w[0], w.back()); std::swap(h[0], h.back()); }
    for (int i = 0; i <= nSmall; ++i) { x[i] = (int)rng.range(-3, W); y[i] = (int)rng.range(-2, nr * H); }
    m.setCellWidth(w); m.setCellHeight(h); m.setCellX(x); m.setCellY(y);
    m.setupRows(Rectangle(0, W, 0, nr * H), H, rng.chance(0.5), rng.chance(0.5));
    if (nSmall > 0) m.addNet({0, nSmall}, {0, 0}, {0, 0});
    m.hasCellSizeUpdate_ = false; m.hasNetUpdate_ = false;
    c0 = m;
  }
  if (profile == "degenerate" && rng.chance(0.25)) {
    // a row or two with ordinary cells plus a pile of movable cells without width (or without height) that all sit on the same
    // point: ties in every sort key
    int nr = (int)rng.range(1, 2), H = (int)rng.range(2, 10), nOrd = (int)rng.range(5, 30), nZero = (int)rng.range(14, 40), W = nOrd * 12 + 60;
    int N = nOrd + nZero;
    Circuit m(N);
    std::vector<int> w(N), h(N, H), x(N), y(N);
    int px = (int)rng.pick(std::vector<int>{0, W, W / 2, W - 20}), py = (int)rng.range(0, nr - 1) * H;
    std::vector<int> order(N);
    for (int i = 0; i < N; ++i) order[i] = i;
    if (rng.chance(0.5)) for (int i = N - 1; i > 0; --i) std::swap(order[i], order[rng.range(0, i)]);
    for (int k = 0; k < N; ++k) {
      int i = order[k];
      if (k < nOrd) { w[i] = (int)rng.range(1, 12); x[i] = (int)rng.range(0, W - 12); y[i] = (int)rng.range(0, nr - 1) * H; }
      else { w[i] = 0; if (rng.chance(0.1)) { w[i] = 1; h[i] = 0; } x[i] = px; y[i] = py; }
    }
    m.setCellWidth(w); m.setCellHeight(h); m.setCellX(x); m.setCellY(y);
    m.setupRows(Rectangle(0, W, 0, nr * H), H, rng.chance(0.5), rng.chance(0.5));
    for (int k = 0; k < 6; ++k) m.addNet({(int)rng.range(0, N - 1), (int)rng.range(0, N - 1)}, {0, 0}, {0, 0});
    m.hasCellSizeUpdate_ = false; m.hasNetUpdate_ = false;
    c0 = m;
  }
  if (profile == "degenerate" && rng.chance(0.2) && c0.nbNets() > 0) {
    // all pins on one cell
    int cell = (int)rng.range(0, c0.nbCells() - 1);
    for (int &pc : c0.pinCells_) pc = cell;
  }
  std::string pdesc, gdesc;
  ColoquinteParameters params = genParams(rng, true, &pdesc);
  if (paramFuzz || rng.chance(0.5)) genGlobalParams(rng, params, &gdesc, 25);
  else { params.global.maxNbSteps = (int)rng.range(1, 30); gdesc = "default-global steps=" + std::to_string(params.global.maxNbSteps); }
  if (profile == "wide") {
    // thousands of bins per row: keep the reoptimisation windows small (the transportation solver is
    // quadratic in the number of bins of a window; large windows are exercised on the small grids)
    auto &rl = params.global.roughLegalization;
    rl.lineReoptSize = std::min(rl.lineReoptSize, 6); rl.lineReoptOverlap = std::min(rl.lineReoptOverlap, std::max(1, rl.lineReoptSize - 1));
    rl.diagReoptSize = std::min(rl.diagReoptSize, 6); rl.diagReoptOverlap = std::min(rl.diagReoptOverlap, std::max(1, rl.diagReoptSize - 1));
    rl.squareReoptSize = std::min(rl.squareReoptSize, 3); rl.squareReoptOverlap = std::min(rl.squareReoptOverlap, std::max(1, rl.squareReoptSize - 1));
    params.global.maxNbSteps = std::min(params.global.maxNbSteps, 6);
    rl.nbSteps = std::min(rl.nbSteps, 1);
    try { params.check(); } catch (const std::exception &) { rl.lineReoptSize = 2; rl.lineReoptOverlap = 1; }
  }
  int stages = (int)rng.range(1, 7);  // bit0 global, bit1 legalize, bit2 detailed
  bool useCb = rng.chance(0.3);
  Features f = features(c0);
  r.sig = profile + ":" + f.str() + ":s" + std::to_string(stages);
  if (r.needSample()) r.sample = sampleJson(c0, profile, pdesc + " | " + gdesc, "stages=" + std::to_string(stages));
  if (r.dumpOnly) return;
  Circuit c = c0;
  int ncb = 0;
  PlacementCallback cb = [&](PlacementStep) { ++ncb; };
  auto run = [&](const char *name, std::function<void()> fn) {
    try {
      fn();
      r.count(std::string(name) + "_returned");
    } catch (const std::exception &e) {
      r.count(std::string(name) + "_threw");
    } catch (...) {
      r.fail(std::string("non-std-exception:") + name, "threw something that is not a std::exception");
    }
  };
  if (stages & 1) run("placeGlobal", [&]() { if (useCb) c.placeGlobal(params, cb); else c.placeGlobal(params); });
  if (stages & 2) run("legalize", [&]() { if (useCb) c.legalize(params, cb); else c.legalize(params); });
  if (stages & 4) run("placeDetailed", [&]() { if (useCb) c.placeDetailed(params, cb); else c.placeDetailed(params); });
  r.count("callbacks", ncb);
  r.nontrivial = true;
}

// ------------------------------------------------------------------------------------------------
// C03 on global placement and compositions, including runs ending in an exception
struct CbThrow : std::runtime_error { CbThrow() : std::runtime_error("verif: callback throws") {} };

static void c03Global(Rng &rng, CaseResult &r) {
  GenOpts o = makeProfile(rng, rng.chance(0.5) ? "manyfixed" : "general");
  o.minRowWidth4H = true;
  o.maxCells = std::min(o.maxCells, 25);
  Circuit c0 = genCircuit(rng, o);
  if (rng.chance(0.3)) {
    // some movable cells of zero area (the C06 domain only asks for one movable cell of positive area)
    std::vector<int> mov;
    for (int i = 0; i < c0.nbCells(); ++i) if (!c0.cellIsFixed_[i]) mov.push_back(i);
    for (size_t k = 1; k < mov.size(); ++k) if (rng.chance(0.3)) { if (rng.chance(0.5)) c0.cellWidth_[mov[k]] = 0; else c0.cellHeight_[mov[k]] = 0; }
    c0.hasCellSizeUpdate_ = false;
  }
  std::string pdesc, gdesc;
  ColoquinteParameters params = genParams(rng, true, &pdesc);
  if (rng.chance(0.5)) genGlobalParams(rng, params, &gdesc, 15); else params.global.maxNbSteps = (int)rng.range(1, 20);
  int throwAt = rng.chance(0.4) ? (int)rng.range(1, 12) : -1;
  bool withCb = throwAt > 0 || rng.chance(0.5);
  bool thenDetailed = rng.chance(0.5);
  bool invalidParams = rng.chance(0.1);
  if (invalidParams) params.global.maxNbSteps = -1;
  Features f = features(c0);
  if (r.dumpOnly) { r.sample = sampleJson(c0, "c03.global", pdesc + " | " + gdesc); return; }
  Circuit c = c0;
  int ncb = 0;
  std::string cbFrame;
  PlacementCallback cb = [&](PlacementStep) {
    ++ncb;
    std::string e = frameDiff(c0, c, true);
    if (!e.empty() && cbFrame.empty()) cbFrame = "callback " + std::to_string(ncb) + ": " + e;
    if (ncb == throwAt) throw CbThrow();
  };
  bool ok = false;
  std::string err;
  try {
    if (withCb) c.placeGlobal(params, cb); else c.placeGlobal(params);
    ok = true;
  } catch (const std::exception &e) { err = e.what(); }
  r.count(ok ? "global_returned" : "global_threw");
  std::string e = frameDiff(c0, c, true);
  if (!e.empty()) r.fail("C03:frame-changed-by-placeGlobal", e + (ok ? "" : " (call threw: " + err + ")"));
  if (!cbFrame.empty()) r.fail("C03:frame-changed-in-callback", cbFrame);
  if (invalidParams && !samePlacement(c0, c)) r.fail("C03:placement-changed-by-rejected-parameters", "coordinates changed although the parameters were rejected");
  int moved = countMoved(c0, c);
  if (thenDetailed && !invalidParams) {
    Circuit c1 = c;
    int ncb2 = 0;
    int throwAt2 = rng.chance(0.3) ? (int)rng.range(1, 4) : -1;
    PlacementCallback cb2 = [&](PlacementStep) { ++ncb2; if (ncb2 == throwAt2) throw CbThrow(); };
    bool ok2 = false;
    try { c.placeDetailed(params, cb2); ok2 = true; } catch (const std::exception &) {}
    r.count(ok2 ? "detailed_returned" : "detailed_threw");
    std::string e2 = frameDiff(c1, c, false);
    if (!e2.empty()) r.fail("C03:frame-changed-by-placeDetailed", e2 + (ok2 ? "" : " (call threw)"));
  }
  int nFixed = c0.nbCells() - f.nMov;
  r.nontrivial = moved > 0 && nFixed > 0;
  r.sig = f.str() + (ok ? ":ok" : ":thr") + (withCb ? "c" : "n") + (thenDetailed ? "D" : "-") + "f" + std::to_string(std::min(nFixed, 9));
  if (r.needSample()) r.sample = sampleJson(c0, "c03.global", pdesc + " | " + gdesc, "throwAt=" + std::to_string(throwAt));
}

// ------------------------------------------------------------------------------------------------
// C10: busy protocol + exception safety, every callback index as throw point (exhaustive per instance)
struct NonStd { int v; };

static std::string settersRefused(Circuit &c) {
  // every structural setter must throw and change nothing
  Circuit before = c;
  int n = c.nbCells();
  auto expectThrow = [&](const char *name, std::function<void()> fn) -> std::string {
    try { fn(); } catch (const std::exception &) { return ""; } catch (...) { return std::string(name) + " threw a non-std exception"; }
    return std::string(name) + " was accepted while a placement call is in progress";
  };
  std::vector<std::string> errs;
  errs.push_back(expectThrow("addNet", [&]() { c.addNet({0}, {0}, {0}); }));
  // degenerate arguments are structural modifications like any other (even when they would end up changing nothing)
  errs.push_back(expectThrow("addNet (no pin)", [&]() { c.addNet({}, {}, {}); }));
  errs.push_back(expectThrow("setNets (empty netlist)", [&]() { c.setNets({0}, {}, {}, {}); }));
  errs.push_back(expectThrow("setRows (no row)", [&]() { c.setRows({}); }));
  errs.push_back(expectThrow("setRows (same rows)", [&]() { c.setRows(std::vector<Row>(c.rows_)); }));
  errs.push_back(expectThrow("setCellIsFixed (same values)", [&]() { c.setCellIsFixed(std::vector<bool>(c.cellIsFixed_)); }));
  errs.push_back(expectThrow("setNets", [&]() { c.setNets({0, 1}, {0}, {0}, {0}); }));
  errs.push_back(expectThrow("setRows", [&]() { c.setRows(c.rows_); }));
  errs.push_back(expectThrow("setupRows", [&]() { c.setupRows(Rectangle(0, 10, 0, 10), 2); }));
  errs.push_back(expectThrow("setCellIsFixed", [&]() { c.setCellIsFixed(std::vector<bool>(n, false)); }));
  errs.push_back(expectThrow("setCellIsObstruction", [&]() { c.setCellIsObstruction(std::vector<bool>(n, false)); }));
  errs.push_back(expectThrow("setCellRowPolarity", [&]() { c.setCellRowPolarity(std::vector<CellRowPolarity>(n, CellRowPolarity::ANY)); }));
  for (auto &e : errs) if (!e.empty()) return e;
  std::string d = frameDiff(before, c, true);
  if (!d.empty()) return "a refused setter modified the circuit: " + d;
  if (!samePlacement(before, c)) return "a refused setter modified the placement";
  return "";
}

static std::string settersAccepted(const Circuit &cc) {
  // after the call ended: each setter applied to a copy must succeed and take effect
  int n = cc.nbCells();
  try {
    {
      // on the object itself (a copy does not carry the busy state): setters that re-send the current values
      Circuit &self = const_cast<Circuit &>(cc);
      bool su = self.hasCellSizeUpdate_, nu = self.hasNetUpdate_;
      self.setRows(std::vector<Row>(self.rows_));
      self.setCellIsFixed(std::vector<bool>(self.cellIsFixed_));
      self.setCellIsObstruction(std::vector<bool>(self.cellIsObstruction_));
      self.setCellRowPolarity(std::vector<CellRowPolarity>(self.cellRowPolarity_));
      self.setNets(std::vector<int>(self.netLimits_), std::vector<int>(self.pinCells_), std::vector<int>(self.pinXOffsets_), std::vector<int>(self.pinYOffsets_), std::vector<float>(self.netWeights_));
      self.hasCellSizeUpdate_ = su;
      self.hasNetUpdate_ = nu;
    }
    { Circuit c = cc; int nn = c.nbNets(); c.addNet({0}, {1}, {2}, 2.0f); if (c.nbNets() != nn + 1 || c.pinCells_.back() != 0 || c.pinXOffsets_.back() != 1) return "addNet had no effect"; c.check(); }
    { Circuit c = cc; c.setNets({0, 1}, {0}, {3}, {4}); if (c.nbNets() != 1 || c.pinXOffsets_ != std::vector<int>{3}) return "setNets had no effect"; c.check(); }
    { Circuit c = cc; std::vector<Row> rr = {Row(0, 7, 0, 3, CellOrientation::N)}; c.setRows(rr); if (c.nbRows() != 1 || c.rows_[0].maxX != 7) return "setRows had no effect"; c.check(); }
    { Circuit c = cc; c.setupRows(Rectangle(0, 10, 0, 10), 2); if (c.nbRows() != 5) return "setupRows had no effect"; c.check(); }
    { Circuit c = cc; std::vector<bool> v(n, true); c.setCellIsFixed(v); if (c.cellIsFixed_ != v) return "setCellIsFixed had no effect"; c.check(); }
    { Circuit c = cc; std::vector<bool> v(n, false); c.setCellIsObstruction(v); if (c.cellIsObstruction_ != v) return "setCellIsObstruction had no effect"; c.check(); }
    { Circuit c = cc; std::vector<CellRowPolarity> v(n, CellRowPolarity::SE); c.setCellRowPolarity(v); if (c.cellRowPolarity_ != v) return "setCellRowPolarity had no effect"; c.check(); }
    cc.check();
  } catch (const std::exception &e) {
    return std::string("a structural setter is still refused after the placement call ended: ") + e.what();
  }
  return "";
}

static void c10Case(Rng &rng, CaseResult &r) {
  int stage = (int)rng.range(0, 2);  // 0 global, 1 legalize, 2 detailed
  GenOpts o = makeProfile(rng, rng.chance(0.3) ? "dense" : "general");
  o.maxCells = std::min(o.maxCells, 20);
  if (stage == 0) o.minRowWidth4H = true;
  Circuit c0 = genCircuit(rng, o);
  std::string infeasibleShape;
  if (stage >= 1 && rng.chance(0.25)) {
    // infeasible by shape: a movable cell (not the first one) that fits no row: lower than a row, zero height or width,
    // or wider than every row. Legalization must fail and leave every position as it was.
    std::vector<int> mov;
    for (int i = 0; i < c0.nbCells(); ++i) if (!c0.cellIsFixed_[i]) mov.push_back(i);
    if (mov.size() >= 2) {
      int cell = mov[rng.range(1, (long long)mov.size() - 1)];
      int H = c0.rows_[0].height();
      int kind = (int)rng.range(0, 3);
      bool turned = turnedO(c0.cellOrientation_[cell]);
      int &hh = turned ? c0.cellWidth_[cell] : c0.cellHeight_[cell];   // placed height
      int &ww = turned ? c0.cellHeight_[cell] : c0.cellWidth_[cell];   // placed width
      if (kind == 0 && H > 1) { hh = (int)rng.range(1, H - 1); infeasibleShape = "cell " + std::to_string(cell) + " lower than a row"; }
      else if (kind == 1) { hh = 0; infeasibleShape = "cell " + std::to_string(cell) + " of zero height"; }
      else if (kind == 2) { int mw = 0; for (auto &rw : c0.rows_) mw = std::max(mw, rw.width()); ww = mw + (int)rng.range(1, 5); hh = H; infeasibleShape = "cell " + std::to_string(cell) + " wider than every row"; }
      else { hh = H; ww = std::max(1, ww); }
      c0.hasCellSizeUpdate_ = false;
    }
  }
  std::string pdesc;
  ColoquinteParameters params = genParams(rng, true, &pdesc);
  params.global.maxNbSteps = (int)rng.range(1, 8);
  bool rejectParams = rng.chance(0.1);
  if (rejectParams) { if (stage == 0) params.global.maxNbSteps = -3; else params.legalization.orderingWidth = 5.0; }
  const char *stageName[3] = {"placeGlobal", "legalize", "placeDetailed"};
  if (r.needSample()) r.sample = sampleJson(c0, "c10", pdesc, std::string("stage=") + stageName[stage] + (infeasibleShape.empty() ? "" : " infeasible: " + infeasibleShape));
  if (r.dumpOnly) return;
  auto call = [&](Circuit &c, const std::optional<PlacementCallback> &cb) {
    if (stage == 0) c.placeGlobal(params, cb);
    else if (stage == 1) c.legalize(params, cb);
    else c.placeDetailed(params, cb);
  };
  // pass 0: count callbacks, check the busy protocol inside each one
  int K = 0;
  std::string busyErr;
  bool baseOk = false;
  std::string baseErr;
  {
    Circuit c = c0;
    // at one callback of the run, other circuit objects come into play: a copy taken right there, an unrelated circuit placed
    // from inside the callback, and a nested placement call on the very circuit that is being placed
    int sideAt = (int)rng.range(1, 3), sideKind = (int)rng.range(0, 4);
    std::string sideErr;
    PlacementCallback cb = [&](PlacementStep) {
      ++K;
      std::string e = settersRefused(c);
      if (!e.empty() && busyErr.empty()) busyErr = "callback " + std::to_string(K) + ": " + e;
      if (K != sideAt || !sideErr.empty()) return;
      ColoquinteParameters p2(2, 1);
      p2.global.maxNbSteps = 2;
      if (sideKind == 0) {
        // a copy taken while the original is busy is an independent circuit on which no call is running
        Circuit snap = c;
        std::string a = settersAccepted(snap);
        if (!a.empty()) { sideErr = "C10:copy-taken-in-a-callback-is-busy|a copy of the circuit taken inside callback " + std::to_string(K) + " refuses modifications although no call is running on it: " + a; return; }
        try { snap.legalize(p2); } catch (const std::exception &) {}
        a = settersAccepted(snap);
        if (!a.empty()) { sideErr = "C10:copy-taken-in-a-callback-is-busy|after a placement call on the copy: " + a; return; }
        r.count("copies_taken_in_a_callback");
      } else if (sideKind == 1) {
        // another circuit placed from inside the callback: free again as soon as its own call has ended
        Circuit b = c0;
        try { if (stage == 0) b.legalize(p2); else b.placeGlobal(p2); } catch (const std::exception &) {}
        std::string a = settersAccepted(b);
        if (!a.empty()) { sideErr = "C10:other-circuit-busy-after-its-call-ended|a second circuit placed from inside callback " + std::to_string(K) + " still refuses modifications after its call ended: " + a; return; }
        std::string e2 = settersRefused(c);
        if (!e2.empty()) { sideErr = "C10:setter-accepted-during-placement|after placing another circuit from inside callback " + std::to_string(K) + ": " + e2; return; }
        r.count("other_circuits_placed_in_a_callback");
      } else if (sideKind == 3) {
        // the circuit that is being placed is assigned to (a roll-back to a snapshot of itself): it stays busy
        Circuit snap = c;
        c = snap;
        std::string e2 = settersRefused(c);
        if (!e2.empty()) { sideErr = "C10:setter-accepted-during-placement-after-an-assignment|after 'circuit = snapshot' inside callback " + std::to_string(K) + " of the running call: " + e2; return; }
        r.count("assignments_in_a_callback");
      } else if (sideKind == 2) {
        // a nested placement call on the circuit that is being placed: when it has ended the outer call is still in progress
        try { c.legalize(p2); } catch (const std::exception &) {}
        std::string e2 = settersRefused(c);
        if (!e2.empty()) { sideErr = "C10:setter-accepted-during-placement-after-a-nested-call|after a nested legalize inside callback " + std::to_string(K) + " of the running call: " + e2; return; }
        r.count("nested_calls_in_a_callback");
      }
    };
    try { call(c, cb); baseOk = true; } catch (const std::exception &e) { baseErr = e.what(); } catch (...) { r.fail("non-std-exception", "library threw a non-std exception"); }
    if (!busyErr.empty()) r.fail("C10:setter-accepted-during-placement", busyErr);
    if (!sideErr.empty()) { size_t bar = sideErr.find('|'); r.fail(sideErr.substr(0, bar), sideErr.substr(bar + 1)); }
    std::string e = settersAccepted(c);
    if (!e.empty()) r.fail(baseOk ? "C10:setter-refused-after-return" : "C10:setter-refused-after-library-exception", e + (baseOk ? "" : " (call threw: " + baseErr + ")"));
    if (!baseOk && stage >= 1 && !samePlacement(c0, c) && K == 0) r.fail("C10:failed-legalization-modified-placement", "x/y/orientation changed although legalization threw: " + baseErr + (infeasibleShape.empty() ? "" : " (" + infeasibleShape + ")"));
    if (!infeasibleShape.empty()) r.count(baseOk ? "infeasible_shape_but_returned" : "infeasible_shape_threw");
    if (!baseOk && rejectParams && (!samePlacement(c0, c) || K != 0)) r.fail("C10:rejected-parameters-did-work", "circuit changed or callbacks ran although the parameters were rejected");
  }
  r.count(baseOk ? "base_returned" : "base_threw");
  r.count("callbacks_enumerated", K);
  // fault enumeration: every callback index, two exception types
  long long points = 0;
  for (int k = 1; k <= K; ++k) {
    for (int kind = 0; kind < 3; ++kind) {
      Circuit c = c0;
      int n = 0;
      bool legalizedExposed = false;
      PlacementCallback cb = [&](PlacementStep) {
        ++n;
        if (stage >= 1) legalizedExposed = true;
        if (n == k) {
          if (kind == 2) {
            // the updates that are permitted while a call is in progress (sizes and net weights; same values re-sent),
            // made in the very invocation that then aborts the call
            c.setCellWidth(c.cellWidth_);
            c.setCellHeight(c.cellHeight_);
            c.setNetWeights(c.netWeights_);
          }
          if (kind != 1) throw CbThrow(); else throw NonStd{7};
        }
      };
      bool threw = false;
      try { call(c, cb); } catch (const CbThrow &) { threw = true; } catch (const NonStd &) { threw = true; } catch (const std::exception &e) {
        r.fail("C10:other-exception-during-fault-run", std::string("unexpected exception: ") + e.what());
        threw = true;
      }
      ++points;
      if (!threw) { r.fail("C10:callback-exception-swallowed", "the callback threw at index " + std::to_string(k) + " but the call returned normally"); continue; }
      std::string e = settersAccepted(c);
      if (!e.empty()) { r.fail("C10:setter-refused-after-callback-exception", "throw at callback " + std::to_string(k) + "/" + std::to_string(K) + " in " + stageName[stage] + ": " + e); break; }
      std::string fd = frameDiff(c0, c, stage == 0);
      if (!fd.empty()) r.fail("C10:frame-changed-after-callback-exception", fd);
      // a further placement call (observed by a callback that does nothing) must behave exactly as it does on a twin:
      // a pristine copy of the original circuit that is given the same positions and orientations. Any difference in
      // outcome or result is state the aborted call left behind.
      {
        Circuit twin = c0;
        twin.cellX_ = c.cellX_;
        twin.cellY_ = c.cellY_;
        twin.cellOrientation_ = c.cellOrientation_;
        ColoquinteParameters p2(3, 1);
        p2.global.maxNbSteps = 3;
        bool useLegalize = kind == 0 || (kind == 2 && (k & 1));
        auto follow = [&](Circuit &cc, std::string &err) -> bool {
          PlacementCallback nop = [](PlacementStep) {};
          try {
            if (useLegalize) cc.legalize(p2, nop); else cc.placeDetailed(p2, nop);
            return true;
          } catch (const std::exception &e) {
            err = e.what();
            return false;
          } catch (...) {
            err = "non-std exception";
            return false;
          }
        };
        std::string errC, errT;
        bool okC = follow(c, errC), okT = follow(twin, errT);
        r.count(okC ? "followup_returned" : "followup_threw");
        if (errC == "non-std exception") r.fail("non-std-exception:followup", "follow-up placement threw a non-std exception");
        if (okC != okT || errC != errT)
          r.fail("C10:followup-call-differs-from-pristine-twin", std::string("after a callback exception at index ") + std::to_string(k) + " of " + stageName[stage] + (kind == 2 ? " (the callback had re-sent sizes and net weights)" : "") +
                 ", a further " + (useLegalize ? "legalize" : "placeDetailed") + " " + (okC ? "returned" : "threw '" + errC + "'") + " whereas on a pristine copy with the same placement it " + (okT ? "returned" : "threw '" + errT + "'"));
        else if (!samePlacement(c, twin))
          r.fail("C10:followup-result-differs-from-pristine-twin", std::string("after a callback exception in ") + stageName[stage] + " a further placement call computes a different placement than on a pristine copy with the same positions");
        else r.count("followup_twin_agreed");
      }
      std::string e2 = settersAccepted(c);
      if (!e2.empty()) { r.fail("C10:setter-refused-after-followup", e2); break; }
    }
    if (!r.viol.empty()) break;
  }
  r.count("fault_points", points);
  r.nontrivial = K > 0;
  r.sig = std::string(stageName[stage]) + ":K" + std::to_string(std::min(K, 40)) + (baseOk ? ":ok" : ":thr") + (rejectParams ? "R" : "") + (infeasibleShape.empty() ? "" : "S");
}

// The Legalizer object used in stages: some tall cells through runTetris, some row-high cells through runAbacus (each call
// skips cells that are already placed or of the wrong kind), in any order and possibly several times, then run() for the rest.
// Whenever run() returns, the exported placement must be legal; cells placed by an earlier stage are obstacles for the later ones.
static void c01Staged(Rng &rng, CaseResult &r) {
  std::string profile = rng.pick(std::vector<std::string>{"multirow", "general", "turned", "dense", "obstruction"});
  GenOpts o = makeProfile(rng, profile);
  o.polarityProb = std::min(o.polarityProb, 0.2);
  if (rng.chance(0.5)) o.multiRowProb = 0.5;
  Circuit c0 = genCircuit(rng, o);
  std::string pdesc;
  ColoquinteParameters params = genParams(rng, false, &pdesc);
  int stages = (int)rng.range(1, 4);
  if (r.dumpOnly) { r.sample = sampleJson(c0, "c01.staged", pdesc, "stages=" + std::to_string(stages)); return; }
  std::ostringstream hist;
  try {
    Legalizer leg = Legalizer::fromIspdCircuit(c0);
    int n = leg.nbCells();
    for (int s2 = 0; s2 < stages; ++s2) {
      std::vector<int> some;
      for (int i = 0; i < n; ++i) if (rng.chance(0.4)) some.push_back(i);
      if (rng.chance(0.5)) for (int i = (int)some.size() - 1; i > 0; --i) std::swap(some[i], some[rng.range(0, i)]);
      if (rng.chance(0.5)) { leg.runTetris(some); hist << "runTetris(" << some.size() << ") "; }
      else { leg.runAbacus(some); hist << "runAbacus(" << some.size() << ") "; }
    }
    leg.run(params);
    hist << "run";
    Circuit c = c0;
    leg.exportPlacement(c);
    r.count("staged_runs_returned");
    std::string e = checkLegal(c);
    if (!e.empty()) r.fail("C01:illegal-after-staged-legalization", "after " + hist.str() + ": " + e);
    std::string fd = frameDiff(c0, c, false);
    if (!fd.empty()) r.fail("C03:frame-changed-by-legalize", fd);
    r.nontrivial = true;
  } catch (const std::exception &e) {
    r.count("staged_runs_threw");
    r.nontrivial = false;
  }
  Features f = features(c0);
  r.sig = "staged:" + f.str() + ":" + std::to_string(stages);
  if (r.needSample()) r.sample = sampleJson(c0, "c01.staged", pdesc, hist.str());
}

// The two component legalizers used directly, the way Legalizer uses them (free row segments, placed dimensions, targets), with the
// row list handed over in an arbitrary order: the list is documented as a set of rows, LegalizerBase orders it itself. The result
// must not depend on the order of the list, and whatever a component reports as placed must be legal with respect to the list.
namespace {
struct LegView : Legalizer {
  explicit LegView(const Legalizer &l) : Legalizer(l) {}
  using LegalizerBase::cellWidth_; using LegalizerBase::cellHeight_; using LegalizerBase::cellRowPolarity_;
  using LegalizerBase::cellTargetX_; using LegalizerBase::cellTargetY_; using LegalizerBase::cellTargetOrientation_;
};
template <class B> struct CompView : B {
  using B::B;
  bool placed(int c) const { return this->isPlaced(c); }
};
}  // namespace

static void c01Components(Rng &rng, CaseResult &r) {
  std::string profile = rng.pick(std::vector<std::string>{"multirow", "general", "obstruction", "comb", "staggered", "dense", "turned"});
  GenOpts o = makeProfile(rng, profile);
  if (rng.chance(0.5)) o.multiRowProb = 0.5;
  Circuit c0 = genCircuit(rng, o);
  bool tetris = rng.chance(0.6);
  uint64_t shuffleSeed = rng.next();
  if (r.dumpOnly) { r.sample = sampleJson(c0, "c01.components", "", std::string(tetris ? "TetrisLegalizer" : "AbacusLegalizer") + " rows shuffled with " + std::to_string(shuffleSeed)); return; }
  std::vector<Row> rows;
  std::vector<int> w, h, x, y;
  std::vector<CellRowPolarity> pol;
  std::vector<CellOrientation> ori;
  int rowH = 0;
  try {
    Legalizer l0 = Legalizer::fromIspdCircuit(c0);
    LegView l(l0);
    rows = l.remainingRows();
    rowH = l.rowHeight();
    for (int c = 0; c < l.nbCells(); ++c) {
      bool tall = l.cellHeight_[c] > rowH;
      if (tetris ? !tall && rng.chance(0.5) : l.cellHeight_[c] != rowH) continue;
      w.push_back(l.cellWidth_[c]); h.push_back(l.cellHeight_[c]); pol.push_back(l.cellRowPolarity_[c]);
      x.push_back(l.cellTargetX_[c]); y.push_back(l.cellTargetY_[c]); ori.push_back(l.cellTargetOrientation_[c]);
    }
  } catch (const std::exception &) { r.sig = "refused"; return; }
  int n = (int)w.size();
  if (n == 0 || rows.empty()) { r.sig = "nothing-to-place"; return; }
  std::vector<Row> shuffled = rows;
  Rng srng(shuffleSeed);
  int kind = (int)srng.range(0, 2);
  if (kind == 0) std::reverse(shuffled.begin(), shuffled.end());
  else for (int i = (int)shuffled.size() - 1; i > 0; --i) std::swap(shuffled[i], shuffled[srng.range(0, i)]);
  bool reordered = false;
  for (size_t i = 0; i < rows.size(); ++i) if (rows[i].minX != shuffled[i].minX || rows[i].minY != shuffled[i].minY) reordered = true;
  std::set<int> starts;
  for (auto &q : rows) starts.insert(q.minX);
  auto judge = [&](auto &A, auto &B, const char *what) {
    bool thrA = false, thrB = false;
    try { A.run(); } catch (const std::exception &) { thrA = true; }
    try { B.run(); } catch (const std::exception &) { thrB = true; }
    if (thrA != thrB) { r.fail(std::string("C01:") + what + "-outcome-depends-on-row-list-order", thrA ? "threw with the sorted list only" : "threw with the reordered list only"); return; }
    if (thrA) { r.count("components_threw"); return; }
    int placedN = 0;
    for (int c = 0; c < n; ++c) {
      if (A.placed(c) != B.placed(c) || (A.placed(c) && (A.cellLegalX()[c] != B.cellLegalX()[c] || A.cellLegalY()[c] != B.cellLegalY()[c] || A.cellLegalOrientation()[c] != B.cellLegalOrientation()[c]))) {
        r.fail(std::string("C01:") + what + "-result-depends-on-row-list-order", "cell " + std::to_string(c) + ": (" + std::to_string(A.cellLegalX()[c]) + "," + std::to_string(A.cellLegalY()[c]) + ") with the sorted list, (" +
                                                                                     std::to_string(B.cellLegalX()[c]) + "," + std::to_string(B.cellLegalY()[c]) + ") with the reordered one");
        break;
      }
      if (A.placed(c)) ++placedN;
    }
    // legality of what the component run on the reordered list reports as placed
    struct Box { int x0, x1, y0, y1, c; };
    std::vector<Box> boxes;
    for (int c = 0; c < n; ++c) {
      if (!B.placed(c)) continue;
      int pw = w[c], ph = h[c];
      if (isTurn(B.cellLegalOrientation()[c]) != isTurn(ori[c])) std::swap(pw, ph);
      int px = B.cellLegalX()[c], py = B.cellLegalY()[c];
      if (ph <= 0 || ph % rowH != 0) { r.fail(std::string("C01:") + what + "-placed-height-not-a-multiple-of-the-row-height", "cell " + std::to_string(c)); continue; }
      for (int sy = py; sy < py + ph; sy += rowH) {
        bool inside = false;
        for (auto &q : rows) if (q.minY == sy && q.minX <= px && px + pw <= q.maxX) inside = true;
        if (!inside) { r.fail(std::string("C01:") + what + "-strip-outside-free-row-segments", "cell " + std::to_string(c) + " x " + std::to_string(px) + ".." + std::to_string(px + pw) + " strip at y " + std::to_string(sy)); break; }
      }
      boxes.push_back({px, px + pw, py, py + ph, c});
    }
    for (size_t a = 0; a < boxes.size() && r.viol.empty(); ++a)
      for (size_t b = a + 1; b < boxes.size(); ++b)
        if (boxes[a].x0 < boxes[b].x1 && boxes[b].x0 < boxes[a].x1 && boxes[a].y0 < boxes[b].y1 && boxes[b].y0 < boxes[a].y1) {
          r.fail(std::string("C01:") + what + "-placed-cells-overlap", "cells " + std::to_string(boxes[a].c) + " and " + std::to_string(boxes[b].c));
          break;
        }
    r.count("component_cells_placed", placedN);
    r.count("component_cells_left_unplaced", n - placedN);
    r.nontrivial = placedN > 0 && reordered;
  };
  if (tetris) {
    CompView<TetrisLegalizer> A(rows, w, h, pol, x, y, ori), B(shuffled, w, h, pol, x, y, ori);
    judge(A, B, "tetris");
    r.count("tetris_components_run");
  } else {
    CompView<AbacusLegalizer> A(rows, w, h, pol, x, y, ori), B(shuffled, w, h, pol, x, y, ori);
    judge(A, B, "abacus");
    r.count("abacus_components_run");
  }
  if (reordered) r.count("row_lists_really_reordered");
  if (starts.size() > 1) r.count("row_lists_with_different_segment_starts");
  r.sig = std::string(tetris ? "T" : "A") + ":" + profile + ":r" + std::to_string(std::min<size_t>(rows.size(), 12)) + "s" + std::to_string(std::min<size_t>(starts.size(), 5)) + "n" + std::to_string(std::min(n, 12)) + "k" + std::to_string(kind);
  if (!r.viol.empty() || r.needSample()) r.sample = sampleJson(c0, "c01.components", "", std::string(tetris ? "TetrisLegalizer" : "AbacusLegalizer") + " rows shuffled with " + std::to_string(shuffleSeed));
}

// The position setters stay available while a call is in progress. When a callback uses them to move or turn a FIXED cell,
// the stage must leave that cell where the callback put it: fixed cells are never written by a placement stage.
static void c03Nudge(Rng &rng, CaseResult &r) {
  int stage = (int)rng.range(0, 2);
  GenOpts o = makeProfile(rng, rng.chance(0.5) ? "manyfixed" : "general");
  o.maxCells = std::min(o.maxCells, 20);
  o.maxFixed = std::max(o.maxFixed, 3);
  if (stage == 0) o.minRowWidth4H = true;
  Circuit c0 = genCircuit(rng, o);
  std::string pdesc;
  ColoquinteParameters params = genParams(rng, true, &pdesc);
  params.global.maxNbSteps = (int)rng.range(1, 8);
  std::vector<int> fixedCells;
  for (int i = 0; i < c0.nbCells(); ++i) if (c0.cellIsFixed_[i]) fixedCells.push_back(i);
  static const char *sn[3] = {"placeGlobal", "legalize", "placeDetailed"};
  int nudgeAt = (int)rng.range(1, 4);
  if (r.dumpOnly) { r.sample = sampleJson(c0, "c03.nudge", pdesc, std::string(sn[stage]) + " nudgeAt=" + std::to_string(nudgeAt)); return; }
  if (fixedCells.empty()) { r.sig = "nofixed"; return; }
  Circuit c = c0;
  int ncb = 0, nudges = 0;
  std::vector<int> expX, expY;
  std::vector<CellOrientation> expO;
  std::string cbErr;
  auto fixedAsExpected = [&](const Circuit &cc) -> std::string {
    for (int i : fixedCells)
      if (cc.cellX_[i] != expX[i] || cc.cellY_[i] != expY[i] || cc.cellOrientation_[i] != expO[i])
        return "fixed cell " + std::to_string(i) + " was left at (" + std::to_string(expX[i]) + "," + std::to_string(expY[i]) + "," + oname(expO[i]) + ") by the callback and is now at (" +
               std::to_string(cc.cellX_[i]) + "," + std::to_string(cc.cellY_[i]) + "," + oname(cc.cellOrientation_[i]) + ")";
    return "";
  };
  PlacementCallback cb = [&](PlacementStep) {
    ++ncb;
    if (nudges > 0 && cbErr.empty()) { std::string e = fixedAsExpected(c); if (!e.empty()) cbErr = "callback " + std::to_string(ncb) + ": " + e; }
    if (ncb == nudgeAt) {
      // structural setters are refused while the call runs; a refusal must not have touched anything
      Circuit before = c;
      try { c.setupRows(Rectangle(0, 50, 0, 40), std::max(1, c.rows_[0].height())); } catch (const std::exception &) {}
      try { c.setRows({}); } catch (const std::exception &) {}
      try { c.setNets({0}, {}, {}, {}); } catch (const std::exception &) {}
      try { c.setCellIsFixed(std::vector<bool>(c.nbCells(), false)); } catch (const std::exception &) {}
      try { c.setCellIsObstruction(std::vector<bool>(c.nbCells(), false)); } catch (const std::exception &) {}
      try { c.setCellRowPolarity(std::vector<CellRowPolarity>(c.nbCells(), CellRowPolarity::SAME)); } catch (const std::exception &) {}
      std::string fdr = frameDiff(before, c, true);
      if (!fdr.empty() && cbErr.empty()) cbErr = "callback " + std::to_string(ncb) + ": a structural setter refused during the call changed the circuit: " + fdr;
    }
    if (ncb == nudgeAt || (nudges > 0 && rng.chance(0.2))) {
      std::vector<int> x = c.cellX_, y = c.cellY_;
      std::vector<CellOrientation> oo = c.cellOrientation_;
      for (int i : fixedCells) if (rng.chance(0.6)) { x[i] += (int)rng.range(-9, 9); y[i] += (int)rng.range(-9, 9); if (rng.chance(0.3)) oo[i] = UNTURNED4[rng.range(0, 3)]; }
      int how = (int)rng.range(0, 1);
      if (how == 0) { c.setCellX(x); c.setCellY(y); c.setCellOrientation(oo); }
      else { PlacementSolution sol; for (int i = 0; i < c.nbCells(); ++i) sol.emplace_back(x[i], y[i], oo[i]); c.setSolution(sol); }
      expX = c.cellX_; expY = c.cellY_; expO = c.cellOrientation_;
      ++nudges;
    }
  };
  bool ok = false;
  std::string err;
  try {
    if (stage == 0) c.placeGlobal(params, cb); else if (stage == 1) c.legalize(params, cb); else c.placeDetailed(params, cb);
    ok = true;
  } catch (const std::exception &e) { err = e.what(); }
  r.count(ok ? "returned" : "threw");
  r.count("nudges", nudges);
  if (nudges > 0) {
    if (!cbErr.empty()) r.fail(cbErr.find("refused during the call") != std::string::npos ? "C03:frame-changed-by-a-refused-setter" : "C03:fixed-cell-moved-back-by-the-stage", std::string(sn[stage]) + " " + cbErr);
    std::string e = fixedAsExpected(c);
    if (!e.empty()) r.fail("C03:fixed-cell-moved-back-by-the-stage", std::string(sn[stage]) + (ok ? " on return: " : " after it threw: ") + e);
  }
  r.nontrivial = nudges > 0 && ncb > nudgeAt;
  r.sig = std::string(sn[stage]) + ":n" + std::to_string(std::min(nudges, 3)) + ":cb" + std::to_string(std::min(ncb, 9)) + (ok ? "r" : "t");
  if (r.needSample()) r.sample = sampleJson(c0, "c03.nudge", pdesc, std::string(sn[stage]) + " nudgeAt=" + std::to_string(nudgeAt));
}

// The position setters stay available during a call. A Detailed callback that uses them on MOVABLE cells (also on multi-row cells,
// which the detailed placer keeps but does not optimise) must not make the wirelength of the exposed states rise: the run with such a
// callback is compared with a run of the same circuit under a passive callback, so that a rise already present there (judged by the
// c05.* flow parts, recorded finding included) is not judged a second time here.
static void c05Meddle(Rng &rng, CaseResult &r) {
  std::string profile = rng.pick(std::vector<std::string>{"multirow", "general", "turned", "polarity", "obstruction"});
  GenOpts o = makeProfile(rng, profile);
  if (rng.chance(0.6)) o.multiRowProb = 0.5;
  Circuit c0 = genCircuit(rng, o);
  std::string pdesc;
  ColoquinteParameters params = genParams(rng, true, &pdesc);
  uint64_t meddleSeed = rng.next();
  std::string desc = "callbacks from the second on write positions of movable cells, seed " + std::to_string(meddleSeed);
  if (r.dumpOnly) { r.sample = sampleJson(c0, "c05.meddle", pdesc, desc); return; }
  int H = c0.rows_[0].height();
  std::vector<long long> hA, hB;
  bool okA = false, okB = false;
  Circuit a = c0, b = c0;
  try {
    PlacementCallback cb = [&](PlacementStep) { hA.push_back(a.hpwl()); };
    a.placeDetailed(params, cb);
    okA = true;
    hA.push_back(a.hpwl());
  } catch (const std::exception &) {}
  Rng m(meddleSeed);
  int writes = 0, tallWrites = 0, ncb = 0;
  try {
    PlacementCallback cb = [&](PlacementStep) {
      ++ncb;
      hB.push_back(b.hpwl());
      if (ncb < 2 || !m.chance(0.7)) return;  // the first callback comes from the legalization stage: what it writes is the start
      std::vector<int> x = b.cellX_, y = b.cellY_;
      std::vector<CellOrientation> oo = b.cellOrientation_;
      bool any = false;
      for (int i = 0; i < b.nbCells(); ++i) {
        if (b.cellIsFixed_[i]) continue;
        bool tall = pH(b, i) != H;
        if (!m.chance(tall ? 0.7 : 0.15)) continue;
        x[i] += (int)m.range(-60, 60); y[i] += (int)m.range(-3, 3) * H;
        any = true;
        if (tall) ++tallWrites;
      }
      if (!any) return;
      int how = (int)m.range(0, 2);
      if (how == 0) { b.setCellX(x); b.setCellY(y); }
      else if (how == 1) { PlacementSolution sol; for (int i = 0; i < b.nbCells(); ++i) sol.emplace_back(x[i], y[i], oo[i]); b.setSolution(sol); }
      else { b.setCellY(y); b.setCellX(x); }
      ++writes;
    };
    b.placeDetailed(params, cb);
    okB = true;
    hB.push_back(b.hpwl());
  } catch (const std::exception &) {}
  r.count(okB ? "meddled_runs_returned" : "meddled_runs_threw");
  r.count("callback_writes", writes);
  r.count("callback_writes_to_multirow_cells", tallWrites);
  if (okA != okB) r.count("outcome_differs_from_the_passive_run");
  if (okA && okB) {
    if (hA != hB) r.count("exposed_wirelengths_differ_from_the_passive_run");
    for (size_t i = 0; i + 1 < hB.size(); ++i) {
      if (hB[i + 1] <= hB[i]) continue;
      if (i + 1 < hA.size() && hA[i] == hB[i] && hA[i + 1] == hB[i + 1] && hA.size() == hB.size()) continue;  // same rise without the writes
      r.fail("C05:hpwl-increase:after-a-callback-wrote-positions-of-movable-cells", "wirelength rose " + std::to_string(hB[i]) + " -> " + std::to_string(hB[i + 1]) + " between exposed states " + std::to_string(i + 1) + " and " +
                                                                                        std::to_string(i + 2) + " of " + std::to_string(hB.size()) + "; " + std::to_string(writes) + " callback writes, " + std::to_string(tallWrites) + " to multi-row cells");
      break;
    }
    if (hB.size() >= 2 && hB.back() > hB[0] && !(hA.size() >= 2 && hA.back() == hB.back() && hA[0] == hB[0]))
      r.fail("C05:hpwl-increase:after-a-callback-wrote-positions-of-movable-cells", "final wirelength " + std::to_string(hB.back()) + " exceeds the legalized one " + std::to_string(hB[0]));
  }
  r.nontrivial = okB && writes > 0 && ncb > 2;
  Features f = features(c0);
  r.sig = "meddle:" + f.str() + ":w" + std::to_string(std::min(writes, 5)) + "t" + std::to_string(std::min(tallWrites, 3)) + "cb" + std::to_string(std::min(ncb, 9)) + (okB ? "r" : "t");
  if (!r.viol.empty() || r.needSample()) r.sample = sampleJson(c0, "c05.meddle", pdesc, desc);
}

// Many cells: tens to hundreds of thousands, with the netlist shapes that stress depth and length rather than values:
// chains listed in order (every net links cell i to i+1), shuffled chains, hubs, random small nets.
static void c07ScaleCase(uint64_t idx, Rng &rng, CaseResult &r) {
  static const int sizes[4] = {20000, 60000, 150000, 250000};
  int N = sizes[idx % 4];
  int shape = (int)((idx / 4) % 4);  // 0 chain in order, 1 chain with the nets shuffled, 2 hubs, 3 random small nets
  int H = 10;
  std::vector<int> w(N + 2), h(N + 2, H), x(N + 2), y(N + 2);
  long long area = 0;
  for (int i = 0; i < N; ++i) { w[i] = (int)rng.range(2, 6); area += (long long)w[i] * H; }
  w[N] = w[N + 1] = 4;
  int side = (int)std::ceil(std::sqrt((double)area * 2.0));
  int nRows = std::max(1, side / H), W = (int)(area * 2 / ((long long)nRows * H)) + 10;
  for (int i = 0; i < N + 2; ++i) { x[i] = (int)rng.range(0, W - 6); y[i] = (int)rng.range(0, nRows - 1) * H; }
  x[N] = 0; y[N] = 0; x[N + 1] = W - 4; y[N + 1] = (nRows - 1) * H;
  Circuit c(N + 2);
  std::vector<bool> fx(N + 2, false), ob(N + 2, false);
  fx[N] = fx[N + 1] = true;
  c.setCellWidth(w); c.setCellHeight(h); c.setCellX(x); c.setCellY(y); c.setCellIsFixed(fx); c.setCellIsObstruction(ob);
  c.setupRows(Rectangle(0, W, 0, nRows * H), H);
  std::vector<int> limits = {0}, cells, xo, yo;
  auto pin = [&](int cell) { cells.push_back(cell); xo.push_back(1); yo.push_back(5); };
  if (shape == 0 || shape == 1) {
    std::vector<int> order(N - 1);
    for (int i = 0; i < N - 1; ++i) order[i] = i;
    if (shape == 1) for (int i = N - 2; i > 0; --i) std::swap(order[i], order[rng.range(0, i)]);
    pin(N); pin(0); limits.push_back((int)cells.size());
    for (int i : order) { pin(i); pin(i + 1); limits.push_back((int)cells.size()); }
    pin(N - 1); pin(N + 1); limits.push_back((int)cells.size());
  } else if (shape == 2) {
    int hubs = 50;
    for (int k = 0; k < hubs; ++k) {
      int hub = (int)rng.range(0, N - 1);
      for (int j = 0; j < N / hubs / 4; ++j) { pin(hub); pin((int)rng.range(0, N - 1)); limits.push_back((int)cells.size()); }
    }
    pin(N); pin(0); pin(N + 1); limits.push_back((int)cells.size());
  } else {
    for (int k = 0; k < N; ++k) { int deg = (int)rng.range(2, 4); for (int j = 0; j < deg; ++j) pin(rng.chance(0.01) ? N + (int)rng.range(0, 1) : (int)rng.range(0, N - 1)); limits.push_back((int)cells.size()); }
  }
  c.setNets(limits, cells, xo, yo);
  static const char *sn[4] = {"chain-in-order", "chain-shuffled", "hubs", "random-small-nets"};
  if (r.needSample()) r.sample = vf::J::obj().kv("cells", N).kv("netlist", sn[shape]).kv("nets", c.nbNets()).kv("rows", nRows).kv("row_width", W).kv("stages", "placeGlobal(effort 1, 2 steps) legalize placeDetailed(effort 1)").str();
  if (r.dumpOnly) return;
  ColoquinteParameters params(1, 1);
  params.global.maxNbSteps = 2;
  params.global.continuousModel.maxNbConjugateGradientSteps = 30;
  params.detailed.nbPasses = 1;
  try {
    c.placeGlobal(params);
    r.count("placeGlobal_returned");
    c.legalize(params);
    r.count("legalize_returned");
    c.placeDetailed(params);
    r.count("placeDetailed_returned");
  } catch (const std::exception &e) {
    r.count("threw");
  }
  r.nontrivial = true;
  r.sig = std::string(sn[shape]) + ":" + std::to_string(N);
}

// ------------------------------------------------------------------------------------------------
int main(int argc, char **argv) {
  std::vector<vf::Part> parts;
  auto add = [&](const std::string &name, vf::CaseFn fn, double budget = 20) { parts.push_back({name, fn, budget}); };
  for (std::string prof : {"general", "rowhigh-any", "multirow", "turned", "polarity", "dense", "obstruction", "big", "crowded", "faraway", "comb", "staggered"}) {
    add("c01." + prof, [prof](uint64_t, Rng &rng, CaseResult &r) { flowCase(rng, r, prof, O_C01); });
    add("c02.api." + prof, [prof](uint64_t, Rng &rng, CaseResult &r) { flowCase(rng, r, prof, O_C02); });
    add("c04." + prof, [prof](uint64_t, Rng &rng, CaseResult &r) { flowCase(rng, r, prof, O_C04); });
  }
  for (std::string prof : {"general", "nets", "polarity", "dense", "multirow", "rowhigh-any", "crowded", "faraway", "big", "staggered"})
    add("c05." + prof, [prof](uint64_t, Rng &rng, CaseResult &r) { flowCase(rng, r, prof, O_C05); });
  for (std::string prof : {"general", "manyfixed", "dense", "obstruction", "crowded", "faraway", "big"})
    add("c03.flow." + prof, [prof](uint64_t, Rng &rng, CaseResult &r) { flowCase(rng, r, prof, O_C03); });
  add("c01.staged", [](uint64_t, Rng &rng, CaseResult &r) { c01Staged(rng, r); });
  add("c01.components", [](uint64_t, Rng &rng, CaseResult &r) { c01Components(rng, r); });
  add("c05.meddle", [](uint64_t, Rng &rng, CaseResult &r) { c05Meddle(rng, r); }, 60);
  add("c03.global", [](uint64_t, Rng &rng, CaseResult &r) { c03Global(rng, r); });
  add("c03.nudge", [](uint64_t, Rng &rng, CaseResult &r) { c03Nudge(rng, r); }, 60);
  for (std::string prof : {"general", "rowhigh", "obstruction", "polarity", "dense", "crowded", "big20", "comb", "staggered"})
    add("c11.relegalize." + prof, [prof](uint64_t, Rng &rng, CaseResult &r) { flowCase(rng, r, prof, O_C11); });
  add("c11.constructed", [](uint64_t, Rng &rng, CaseResult &r) { c11Constructed(rng, r); });
  for (std::string prof : {"general", "degenerate", "big", "wide", "dense", "multirow", "obstruction", "floating", "blocked"})
    add("c07." + prof, [prof](uint64_t, Rng &rng, CaseResult &r) { c07Case(rng, r, prof, false); }, 120);
  add("c07.paramfuzz", [](uint64_t, Rng &rng, CaseResult &r) { c07Case(rng, r, "general", true); }, 120);
  add("c07.scale", [](uint64_t idx, Rng &rng, CaseResult &r) { c07ScaleCase(idx, rng, r); }, 600);
  add("c10.enum", [](uint64_t, Rng &rng, CaseResult &r) { c10Case(rng, r); }, 60);
  return vf::runMain(argc, argv, parts);
}
