// Detailed placement, below the API:
//   *.opt        : random pass sequences on a DetailedPlacer (C02 legality, C05 value monotone, C09 value exact)
//   c02.ds.closure : exhaustive closure of swap/insert over all legal arrangements of small instances
//   c02.ds.walk    : random walks carrying one DetailedPlacement object through long op sequences
#include <memory>
#include <stdexcept>

#include "circ.hpp"
#include "place_detailed/detailed_placement.hpp"
#include "place_detailed/place_detailed.hpp"

using namespace coloquinte;
using namespace vfc;
using vf::CaseResult;
using vf::Rng;

enum : unsigned { O_C02 = 2, O_C04 = 8, O_C05 = 16, O_C09 = 64 };

static long long frozenRef(const Circuit &state, const std::vector<CellOrientation> &orient) {
  Circuit f = state;
  f.cellOrientation_ = orient;
  return refHpwl(f);
}

static void optCase(Rng &rng, CaseResult &r, unsigned mask, bool reorderOnly = false) {
  std::string profile = rng.pick(std::vector<std::string>{"general", "rowhigh-any", "nets", "obstruction", "polarity", "multirow", "turned", "crowded", "big"});
  if ((mask & O_C04) && rng.chance(0.7)) profile = "polarity";
  GenOpts o = makeProfile(rng, profile);
  o.utilHi = 0.8;
  o.farInit = false;
  // reordering over several rows needs many cells in few rows to have windows with several regions per row
  bool reorderHeavy = rng.chance((mask & O_C04) ? 0.6 : (mask & O_C05) ? 0.5 : 0.3);
  if (reorderHeavy && profile != "crowded" && profile != "big") { o.minCells = std::max(o.minCells, 14); o.maxCells = std::max(o.maxCells, 30); o.maxRows = std::min(o.maxRows, 4); }
  if (reorderOnly) {
    // windows of the reordering pass: few rows, row-high cells with gaps between them, many nets
    profile = rng.chance(0.5) ? "polarity" : "general";
    o = makeProfile(rng, profile);
    profile += "+sparse-rows";
    o.farInit = false;
    o.multiRow = false;
    o.maxRows = (int)rng.range(1, 4);
    o.minCells = 5;
    o.maxCells = (int)rng.range(6, 18);
    o.utilLo = 0.15;
    o.utilHi = 0.7;
    o.maxNets = 30;
    o.maxFixed = 3;
    reorderHeavy = true;
  }
  Circuit c0 = genCircuit(rng, o);
  if (rng.chance(0.15)) { randomFarTranslation(rng, c0); profile += "+faraway"; }
  std::string pdesc;
  ColoquinteParameters params = genParams(rng, false, &pdesc);
  // the passes need a legalized circuit: draw again (a bounded number of times) when legalization refuses this one
  for (int attempt = 0; attempt < 3; ++attempt) {
    bool ok = true;
    try { Circuit t = c0; t.legalize(params); } catch (const std::exception &) { ok = false; }
    if (ok) break;
    r.count("redrawn_after_legalize_threw");
    c0 = genCircuit(rng, o);
    params = genParams(rng, false, &pdesc);
  }
  Features f = features(c0);
  int nOps = rng.chance(0.1) ? (int)rng.range(9, 24) : (int)rng.range(1, 8);
  struct Op { int kind, a, b; uint64_t pick; };
  std::vector<Op> ops;
  std::ostringstream od;
  static const char *fineName[9] = {"swapsOneRow", "insertsOneRow", "swapsTwoRows", "insertsTwoRows", "swapsTwoRowsAmplify", "shiftsOnRows", "shiftsOnCells", "reorderingOnRows", "reorderingOnCells"};
  for (int k = 0; k < nOps; ++k) {
    Op op;
    op.pick = rng.next();
    op.kind = (int)rng.range(0, 3);
    if (rng.chance(reorderOnly ? 0.5 : 0.35)) {
      // the finer-grained passes, on rows / cells chosen when the pass runs (from the state of the placement at that time)
      op.kind = 4 + (int)rng.range(0, 8);
      if (reorderHeavy && rng.chance(reorderOnly ? 0.9 : 0.5)) op.kind = 4 + (int)rng.range(7, 8);
      op.a = (int)rng.range(0, 10);
      op.b = (int)rng.range(2, 7);
      ops.push_back(op);
      od << fineName[op.kind - 4] << "(" << op.a << "," << op.b << ",#" << (op.pick % 1000) << ") ";
      continue;
    }
    if (reorderHeavy && rng.chance(reorderOnly ? 0.85 : 0.5)) op.kind = 3;
    if (op.kind == 0 || op.kind == 1) { op.a = (int)rng.range(0, 4); op.b = (int)rng.range(0, 10); }
    else if (op.kind == 2) { op.a = (int)rng.range(1, 6); op.b = (int)rng.range(2, 40); }
    else { op.a = (int)rng.range(1, reorderHeavy ? 4 : 3); op.b = (int)rng.range(2, reorderHeavy ? (op.a >= 3 ? 6 : 7) : 5); }  // 7 cells over 3-4 rows: minutes of search
    ops.push_back(op);
    od << (op.kind == 0 ? "swaps" : op.kind == 1 ? "inserts" : op.kind == 2 ? "shifts" : "reorder") << "(" << op.a << "," << op.b << ") ";
  }
  auto sample = [&]() {
    vf::J j = vf::J::obj();
    j.kv("profile", profile).kv("params", pdesc).kv("passes", od.str()).kraw("circuit", circuitJson(c0));
    return j.str();
  };
  if (r.dumpOnly) { r.sample = sample(); return; }
  Circuit c = c0;
  try {
    c.legalize(params);
  } catch (const std::exception &) {
    r.count("legalize_threw");
    r.sig = "legfail";
    if (r.needSample()) r.sample = sample();
    return;
  }
  int H = c.rows_[0].height();
  std::vector<CellOrientation> legO = c.cellOrientation_;
  try {
    DetailedPlacer pl(c, params);
    pl.check();
    long long v = pl.value();
    if (mask & O_C09) {
      long long ref = frozenRef(c, legO);
      if (v != ref) r.fail("C09:placer-value-differs-initially", "DetailedPlacer::value()=" + std::to_string(v) + " reference=" + std::to_string(ref));
    }
    bool improved = false, moved = false;
    std::string kinds;
    auto applyOp = [&](DetailedPlacer &pl, const Op &op, bool cnt) {
      if (op.kind == 0) pl.runSwaps(op.a, op.b);
      else if (op.kind == 1) pl.runInserts(op.a, op.b);
      else if (op.kind == 2) pl.runShifts(op.a, op.b);
      else if (op.kind == 3) pl.runReordering(op.a, op.b);
      else {
        Rng prng(op.pick);
        const DetailedPlacement &dp = pl.placement_;
        int nr = dp.nbRows();
        auto someRows = [&](int maxCount) { std::vector<int> rows; int cnt = (int)prng.range(1, maxCount); for (int j = 0; j < cnt; ++j) { int row = (int)prng.range(0, nr - 1); if (std::find(rows.begin(), rows.end(), row) == rows.end()) rows.push_back(row); } return rows; };
        auto someCells = [&](int maxCount) {
          std::vector<int> all = dp.rowCells(someRows(3)), cells;
          for (int c : all) if (prng.chance(0.6) && (int)cells.size() < maxCount) cells.push_back(c);
          if (prng.chance(0.3)) for (int j = (int)cells.size() - 1; j > 0; --j) std::swap(cells[j], cells[prng.range(0, j)]);
          return cells;
        };
        if (nr > 0) {
          int r1 = (int)prng.range(0, nr - 1), r2 = (int)prng.range(0, nr - 1);
          switch (op.kind - 4) {
            case 0: pl.runSwapsOneRow(r1, op.a); break;
            case 1: pl.runInsertsOneRow(r1, op.a); break;
            case 2: pl.runSwapsTwoRows(r1, r2, op.a); break;
            case 3: pl.runInsertsTwoRows(r1, r2, op.a); break;
            case 4: pl.runSwapsTwoRowsAmplify(r1, r2, op.a); break;
            case 5: pl.runShiftsOnRows(someRows(4), std::max(2, op.b * 3)); break;
            case 6: pl.runShiftsOnCells(someCells(20)); break;
            case 7: pl.runReorderingOnRows(someRows(3), op.b); break;
            default: {
              // half of the time: runs of neighbouring cells, two of them in the same row separated by cells that stay, plus a run
              // in another row (several regions per row in one window, in any order)
              std::vector<int> cells;
              if (prng.chance(0.5)) {
                std::vector<int> ra = dp.rowCells(r1), rb = dp.rowCells(r2);
                std::vector<std::vector<int>> runs;
                if (ra.size() >= 5) {
                  int l1 = 2, gap = (int)prng.range(1, 2), l2 = 2;
                  if ((int)ra.size() >= l1 + gap + l2) {
                    int i = (int)prng.range(0, (long long)ra.size() - (l1 + gap + l2));
                    runs.push_back(std::vector<int>(ra.begin() + i, ra.begin() + i + l1));
                    runs.push_back(std::vector<int>(ra.begin() + i + l1 + gap, ra.begin() + i + l1 + gap + l2));
                  }
                }
                if (r2 != r1 && rb.size() >= 2) { int l = (int)std::min<long long>(prng.range(2, 3), (long long)rb.size()); int i = (int)prng.range(0, (long long)rb.size() - l); runs.push_back(std::vector<int>(rb.begin() + i, rb.begin() + i + l)); }
                for (int j = (int)runs.size() - 1; j > 0; --j) std::swap(runs[j], runs[prng.range(0, j)]);
                for (auto &run : runs) cells.insert(cells.end(), run.begin(), run.end());
                if (cnt) r.count("reordering_windows_with_runs");
              } else cells = someCells(6);
              pl.runReorderingOnCells(cells);
              break;
            }
          }
        }
        if (cnt) r.count("fine_grained_passes");
      }
    };
    // a copy of the placer taken half way must behave exactly like the original from there on
    std::unique_ptr<DetailedPlacer> twin;
    size_t twinAt = rng.chance(0.25) ? ops.size() / 2 : ops.size() + 1;
    for (size_t k = 0; k < ops.size(); ++k) {
      const Op &op = ops[k];
      if (k == twinAt) twin.reset(new DetailedPlacer(pl));
      applyOp(pl, op, true);
      if (twin) {
        applyOp(*twin, op, false);
        Circuit e1 = c, e2 = c;
        pl.exportPlacement(e1);
        twin->exportPlacement(e2);
        if (twin->value() != pl.value() || !samePlacement(e1, e2)) r.fail((mask & O_C02) ? "C02:copy-of-the-placer-diverges" : (mask & O_C04) ? "C04:copy-of-the-placer-diverges" : (mask & O_C05) ? "C05:copy-of-the-placer-diverges" : "C09:copy-of-the-placer-diverges", "a copy of the DetailedPlacer taken before pass " + std::to_string(twinAt + 1) + " gives another result for the same passes (" + od.str() + ")");
        r.count("passes_mirrored_on_a_copy");
      }
      kinds += "SIHRabcdefghi"[op.kind];
      r.count("passes");
      pl.check();
      Circuit e = c;
      pl.exportPlacement(e);
      long long nv = pl.value();
      if (mask & O_C02) {
        std::string le = checkLegal(e);
        if (!le.empty()) r.fail("C02:illegal-after-pass", "after pass " + std::to_string(k + 1) + " (" + od.str() + "): " + le);
        for (int i = 0; i < e.nbCells(); ++i)
          if (!e.cellIsFixed_[i] && pH(c, i) != H && (e.cellX_[i] != c.cellX_[i] || e.cellY_[i] != c.cellY_[i])) { r.fail("C02:tall-cell-moved", "pass " + std::to_string(k + 1)); break; }
        std::string fd = frameDiff(c, e, false);
        if (!fd.empty()) r.fail("C02:export-changed-frame", fd);
      }
      if (mask & O_C04) {
        std::string pe = checkPolarity(e, c0.cellOrientation_);
        if (!pe.empty()) r.fail("C04:after-pass", "after pass " + std::to_string(k + 1) + " (" + od.str() + "): " + pe);
      }
      if (mask & O_C05) {
        if (nv > v) r.fail("C05:placer-value-increased", "pass " + std::to_string(k + 1) + " of (" + od.str() + "): value " + std::to_string(v) + " -> " + std::to_string(nv));
      }
      if (mask & O_C09) {
        long long ref = frozenRef(e, legO);
        if (nv != ref) r.fail("C09:placer-value-differs-after-pass", "pass " + std::to_string(k + 1) + " of (" + od.str() + "): value()=" + std::to_string(nv) + " reference with frozen orientations=" + std::to_string(ref));
      }
      if (nv < v) improved = true;
      if (!samePlacement(e, c)) moved = true;
      v = nv;
    }
    r.nontrivial = moved;
    if (improved) r.count("runs_improved");
    r.sig = f.str() + ":" + kinds + (moved ? "m" : "s");
  } catch (const std::exception &e) {
    r.fail((mask & O_C02) ? "C02:optimiser-threw" : (mask & O_C04) ? "C04:optimiser-threw" : (mask & O_C05) ? "C05:optimiser-threw" : "C09:optimiser-threw", std::string(e.what()) + " during (" + od.str() + ")");
  }
  if (r.needSample()) r.sample = sample();
}

// ------------------------------------------------------------------------------------------------
// Data-structure layer
struct Family {
  int shape;  // 0: one row, 1: two stacked rows, 2: two segments at the same y
  int L;
  std::vector<int> widths;
};
static std::vector<Family> allFamilies() {
  std::vector<Family> fams;
  for (int shape = 0; shape < 3; ++shape)
    for (int L = 4; L <= 6; ++L)
      for (int n = 1; n <= 4; ++n) {
        int total = 1;
        for (int i = 0; i < n; ++i) total *= 3;
        for (int code = 0; code < total; ++code) {
          Family f{shape, L, {}};
          int x = code;
          for (int i = 0; i < n; ++i) { f.widths.push_back(1 + x % 3); x /= 3; }
          fams.push_back(f);
        }
      }
  return fams;  // 3 * 3 * 120 = 1080
}
static std::vector<Row> familyRows(const Family &f) {
  std::vector<Row> rows;
  rows.emplace_back(0, f.L, 0, 1, CellOrientation::N);
  if (f.shape == 1) rows.emplace_back(0, f.L, 1, 2, CellOrientation::FS);
  if (f.shape == 2) rows.emplace_back(f.L + 1, 2 * f.L + 1, 0, 1, CellOrientation::N);
  return rows;
}

// Independent re-derivation of the row lists from (x, y): "" if the structure is canonical and legal
static std::string rederive(const DetailedPlacement &pl) {
  std::ostringstream err;
  int n = pl.nbCells();
  std::vector<std::vector<int>> byRow(pl.nbRows());
  for (int c = 0; c < n; ++c) {
    if (pl.isIgnored(c)) continue;
    int found = -1;
    for (int rr = 0; rr < pl.nbRows(); ++rr) {
      const Row &row = pl.rows()[rr];
      if (pl.cellY(c) == row.minY && row.minX <= pl.cellX(c) && pl.cellX(c) + pl.cellWidth(c) <= row.maxX) {
        if (found != -1) { err << "cell " << c << " fits two rows"; return err.str(); }
        found = rr;
      }
    }
    if (found == -1) { err << "cell " << c << " at (" << pl.cellX(c) << "," << pl.cellY(c) << ") w=" << pl.cellWidth(c) << " is not inside any row"; return err.str(); }
    if (pl.cellRow(c) != found) { err << "cell " << c << " claims row " << pl.cellRow(c) << " but lies in row " << found; return err.str(); }
    byRow[found].push_back(c);
  }
  for (int rr = 0; rr < pl.nbRows(); ++rr) {
    auto &v = byRow[rr];
    std::sort(v.begin(), v.end(), [&](int a, int b) { return pl.cellX(a) < pl.cellX(b); });
    for (size_t i = 0; i + 1 < v.size(); ++i)
      if (pl.cellX(v[i]) + pl.cellWidth(v[i]) > pl.cellX(v[i + 1])) { err << "cells " << v[i] << " and " << v[i + 1] << " overlap in row " << rr; return err.str(); }
    int first = v.empty() ? -1 : v.front(), last = v.empty() ? -1 : v.back();
    if (pl.rowFirstCell(rr) != first || pl.rowLastCell(rr) != last) { err << "row " << rr << " first/last cell inconsistent with positions"; return err.str(); }
    for (size_t i = 0; i < v.size(); ++i) {
      int pred = i == 0 ? -1 : v[i - 1], next = i + 1 == v.size() ? -1 : v[i + 1];
      if (pl.cellPred(v[i]) != pred || pl.cellNext(v[i]) != next) { err << "links of cell " << v[i] << " inconsistent with positions in row " << rr; return err.str(); }
    }
  }
  return "";
}

struct Arr { std::vector<int> x, y; };
static void enumArrangements(const Family &f, const std::vector<Row> &rows, std::vector<Arr> &out) {
  int n = (int)f.widths.size();
  Arr cur;
  cur.x.assign(n, 0);
  cur.y.assign(n, 0);
  std::function<void(int)> rec = [&](int c) {
    if (c == n) { out.push_back(cur); return; }
    for (auto &row : rows)
      for (int x = row.minX; x + f.widths[c] <= row.maxX; ++x) {
        bool ok = true;
        for (int d = 0; d < c && ok; ++d)
          if (cur.y[d] == row.minY && x < cur.x[d] + f.widths[d] && cur.x[d] < x + f.widths[c]) ok = false;
        if (!ok) continue;
        cur.x[c] = x;
        cur.y[c] = row.minY;
        rec(c + 1);
      }
  };
  rec(0);
}

static std::string famStr(const Family &f) {
  std::ostringstream s;
  s << "shape=" << f.shape << " L=" << f.L << " widths=";
  for (int w : f.widths) s << w;
  return s.str();
}

static void closureCase(uint64_t idx, CaseResult &r) {
  static std::vector<Family> fams = allFamilies();
  if (idx >= fams.size()) { r.sig = "none"; return; }
  const Family &f = fams[idx];
  std::vector<Row> rows = familyRows(f);
  int n = (int)f.widths.size();
  if (r.needSample()) r.sample = vf::J::obj().kv("family", famStr(f)).kv("what", "all legal arrangements x all feasible swap/insert operations").str();
  if (r.dumpOnly) return;
  std::vector<Arr> arrs;
  enumArrangements(f, rows, arrs);
  std::set<std::pair<std::vector<int>, std::vector<int>>> legalSet;
  for (auto &a : arrs) legalSet.insert({a.x, a.y});
  long long opsDone = 0, states = 0;
  for (auto &a : arrs) {
    DetailedPlacement base = DetailedPlacement::fromPos(rows, f.widths, a.x, a.y);
    ++states;
    std::string e0 = rederive(base);
    if (!e0.empty()) { r.fail("C02:ds:construction-not-canonical", famStr(f) + ": " + e0); return; }
    auto after = [&](DetailedPlacement &pl, const std::string &what) -> bool {
      ++opsDone;
      try { pl.check(); } catch (const std::exception &e) { r.fail("C02:ds:check-failed-after-op", famStr(f) + " " + what + ": " + e.what()); return false; }
      std::string e = rederive(pl);
      if (!e.empty()) { r.fail("C02:ds:illegal-or-inconsistent-after-op", famStr(f) + " from x=" + vf::jarr(a.x) + " y=" + vf::jarr(a.y) + " " + what + ": " + e); return false; }
      std::vector<int> nx, ny;
      for (int c = 0; c < n; ++c) { nx.push_back(pl.cellX(c)); ny.push_back(pl.cellY(c)); }
      if (!legalSet.count({nx, ny})) { r.fail("C02:ds:result-outside-legal-arrangements", famStr(f) + " " + what); return false; }
      return true;
    };
    for (int c1 = 0; c1 < n; ++c1)
      for (int c2 = 0; c2 < n; ++c2) {
        if (!base.canSwap(c1, c2)) continue;
        DetailedPlacement pl = base;
        pl.swap(c1, c2);
        if (!after(pl, "swap(" + std::to_string(c1) + "," + std::to_string(c2) + ")")) return;
      }
    for (int c = 0; c < n; ++c)
      for (int row = 0; row < base.nbRows(); ++row)
        for (int pred = -1; pred < n; ++pred) {
          if (pred != -1 && base.cellRow(pred) != row) continue;
          if (!base.canInsert(c, row, pred)) continue;
          DetailedPlacement pl = base;
          pl.insert(c, row, pred);
          if (!after(pl, "insert(" + std::to_string(c) + ",row " + std::to_string(row) + ",pred " + std::to_string(pred) + ")")) return;
        }
  }
  r.count("states", states);
  r.count("transitions", opsDone);
  r.nontrivial = opsDone > 0;
  r.sig = famStr(f);
}

static void walkCase(Rng &rng, CaseResult &r) {
  static std::vector<Family> fams = allFamilies();
  Family f = fams[rng.range(0, (long long)fams.size() - 1)];
  if (rng.chance(0.5)) {  // larger than the exhaustive bounds
    f.L = (int)rng.range(6, 14);
    int n = (int)rng.range(3, 8);
    f.widths.clear();
    for (int i = 0; i < n; ++i) f.widths.push_back((int)rng.range(1, 4));
  }
  std::vector<Row> rows = familyRows(f);
  int n = (int)f.widths.size();
  // random legal arrangement by sequential random placement
  std::vector<int> x(n), y(n);
  for (int c = 0; c < n; ++c) {
    bool placed = false;
    for (int t = 0; t < 200 && !placed; ++t) {
      const Row &row = rows[rng.range(0, (long long)rows.size() - 1)];
      if (row.width() < f.widths[c]) continue;
      int xx = (int)rng.range(row.minX, row.maxX - f.widths[c]);
      bool ok = true;
      for (int d = 0; d < c && ok; ++d) if (y[d] == row.minY && xx < x[d] + f.widths[d] && x[d] < xx + f.widths[c]) ok = false;
      if (ok) { x[c] = xx; y[c] = row.minY; placed = true; }
    }
    if (!placed) { f.widths.resize(c); n = c; x.resize(c); y.resize(c); break; }
  }
  if (r.needSample()) r.sample = vf::J::obj().kv("family", famStr(f)).kraw("x", vf::jarr(x)).kraw("y", vf::jarr(y)).str();
  if (r.dumpOnly || n == 0) return;
  // half of the walks use row orientations and cell polarities: the moves must then keep every polarised cell in the
  // orientation its row prescribes and never put it into a forbidden row (no INVALID orientation)
  bool polarised = rng.chance(0.5);
  std::vector<CellOrientation> orient(n, CellOrientation::N);
  std::vector<CellRowPolarity> pol(n, CellRowPolarity::ANY);
  std::vector<int> cellIndex(n);
  for (int c = 0; c < n; ++c) cellIndex[c] = c;
  if (polarised) {
    static const CellOrientation ro[4] = {CellOrientation::N, CellOrientation::FS, CellOrientation::S, CellOrientation::FN};
    for (auto &row : rows) row.orientation = ro[rng.range(0, 3)];
    static const CellRowPolarity pp[5] = {CellRowPolarity::ANY, CellRowPolarity::SAME, CellRowPolarity::OPPOSITE, CellRowPolarity::NW, CellRowPolarity::SE};
    for (int c = 0; c < n; ++c) {
      CellOrientation rowO = CellOrientation::N;
      for (auto &row : rows) if (row.minY == y[c] && row.minX <= x[c] && x[c] + f.widths[c] <= row.maxX) rowO = row.orientation;
      pol[c] = pp[rng.range(0, 4)];
      CellOrientation req = requiredOrientation(pol[c], rowO);
      if (req == CellOrientation::INVALID) { pol[c] = CellRowPolarity::ANY; req = CellOrientation::UNKNOWN; }
      orient[c] = req == CellOrientation::UNKNOWN ? UNTURNED4[rng.range(0, 3)] : req;
    }
  }
  std::vector<CellOrientation> orient0 = orient;
  DetailedPlacement pl = polarised ? DetailedPlacement(rows, f.widths, x, y, orient, pol, cellIndex) : DetailedPlacement::fromPos(rows, f.widths, x, y);
  auto polarityOk = [&]() -> std::string {
    if (!polarised) return "";
    for (int c = 0; c < n; ++c) {
      CellOrientation o = pl.cellOrientation(c);
      if ((int)o < 0 || (int)o > 7) return "cell " + std::to_string(c) + " has orientation " + oname(o);
      CellOrientation req = requiredOrientation(pol[c], pl.rows()[pl.cellRow(c)].orientation);
      if (req == CellOrientation::INVALID) return "cell " + std::to_string(c) + " (" + pname(pol[c]) + ") sits in a forbidden row";
      if (req == CellOrientation::UNKNOWN ? o != orient0[c] : o != req) return "cell " + std::to_string(c) + " (" + pname(pol[c]) + ") has orientation " + oname(o);
    }
    return "";
  };
  int steps = rng.chance(0.05) ? (int)rng.range(41, 400) : (int)rng.range(5, 40), done = 0;
  std::string trace;
  for (int s = 0; s < steps; ++s) {
    bool did = false;
    if (rng.chance(0.5)) {
      int c1 = (int)rng.range(0, n - 1), c2 = (int)rng.range(0, n - 1);
      if (pl.canSwap(c1, c2)) { pl.swap(c1, c2); trace += "S" + std::to_string(c1) + "," + std::to_string(c2) + " "; did = true; }
    } else {
      int c = (int)rng.range(0, n - 1), row = (int)rng.range(0, pl.nbRows() - 1), pred = (int)rng.range(-1, n - 1);
      if ((pred == -1 || pl.cellRow(pred) == row) && pl.canInsert(c, row, pred)) { pl.insert(c, row, pred); trace += "I" + std::to_string(c) + "," + std::to_string(row) + "," + std::to_string(pred) + " "; did = true; }
    }
    if (!did) continue;
    ++done;
    try { pl.check(); } catch (const std::exception &e) { r.fail("C02:ds:check-failed-after-op", famStr(f) + " trace " + trace + ": " + e.what()); break; }
    std::string e = rederive(pl);
    if (!e.empty()) { r.fail("C02:ds:illegal-or-inconsistent-after-op", famStr(f) + " trace " + trace + ": " + e); break; }
    std::string pe = polarityOk();
    if (!pe.empty()) { r.fail("C02:ds:polarity-violated-after-op", famStr(f) + " trace " + trace + ": " + pe); break; }
  }
  if (polarised) r.count("polarised_walks");
  r.count("ops", done);
  r.nontrivial = done >= 2;
  r.sig = famStr(f).substr(0, 14) + "n" + std::to_string(n) + "d" + std::to_string(std::min(done / 4, 9));
}

int main(int argc, char **argv) {
  std::vector<vf::Part> parts;
  parts.push_back({"c02.opt", [](uint64_t, Rng &rng, CaseResult &r) { optCase(rng, r, O_C02); }, 60});
  parts.push_back({"c04.opt", [](uint64_t, Rng &rng, CaseResult &r) { optCase(rng, r, O_C04); }, 60});
  parts.push_back({"c02.reorder", [](uint64_t, Rng &rng, CaseResult &r) { optCase(rng, r, O_C02, true); }, 60});
  parts.push_back({"c04.reorder", [](uint64_t, Rng &rng, CaseResult &r) { optCase(rng, r, O_C04, true); }, 60});
  parts.push_back({"c05.reorder", [](uint64_t, Rng &rng, CaseResult &r) { optCase(rng, r, O_C05, true); }, 60});
  parts.push_back({"c09.reorder", [](uint64_t, Rng &rng, CaseResult &r) { optCase(rng, r, O_C09, true); }, 60});
  parts.push_back({"c05.opt", [](uint64_t, Rng &rng, CaseResult &r) { optCase(rng, r, O_C05); }, 60});
  parts.push_back({"c09.opt", [](uint64_t, Rng &rng, CaseResult &r) { optCase(rng, r, O_C09); }, 60});
  parts.push_back({"c02.ds.closure", [](uint64_t idx, Rng &, CaseResult &r) { closureCase(idx, r); }, 30});
  parts.push_back({"c02.ds.walk", [](uint64_t, Rng &rng, CaseResult &r) { walkCase(rng, r); }, 10});
  return vf::runMain(argc, argv, parts);
}
