#!/usr/bin/env python3
"""Regenerate /verif/MANIFEST.json from tools/plans.py (claimed checks) and tools/manifest_meta.py."""
import json
import os
import subprocess
import sys

sys.path.insert(0, os.path.dirname(os.path.abspath(__file__)))
from manifest_meta import HOOK_COMMITS, LEVEL_TEXT, NOT_APPLICABLE, NOTES  # noqa: E402
from plans import PLANS  # noqa: E402

ROOT = os.path.dirname(os.path.dirname(os.path.abspath(__file__)))

ALL = ["C%02d" % i for i in range(1, 21)]


def main():
    checks = []
    for pid in ALL:
        if pid not in PLANS:
            continue
        plan = PLANS[pid]
        meta = LEVEL_TEXT[pid]
        checks.append({
            "property_id": pid,
            "quick_cmd": "./check %s --tier quick" % pid,
            "thorough_cmd": "./check %s --tier thorough" % pid,
            "evidence_file": "/verif/evidence/%s.json" % pid,
            "replay_cmd_template": "./check %s --replay {path}" % pid,
            "engine": "runtime-monitor",
            "level_claimed": {"category": plan["level"], "text": meta["text"], "design_ref": "DESIGN.md §4 %s" % pid},
            "level_note": meta["note"],
            "technique": meta["technique"],
        })
    na = [{"property_id": p, "reason": r} for p, r in NOT_APPLICABLE.items() if p not in PLANS]
    for pid in ALL:
        if pid not in PLANS and pid not in NOT_APPLICABLE:
            na.append({"property_id": pid, "reason": "check not built yet in this round (planned, see DESIGN.md §4)"})
    m = {
        "version": 1,
        "setup_cmd": "python3 tools/build.py",
        "hooks": {
            "guard": "COLOQUINTE_VERIF",
            "enable": "tools/build.py compiles every /repo source with -DCOLOQUINTE_VERIF (all variants: asan, fast, ndebug, tsan)",
            "baseline_off_cmd": "tools/baseline_off.sh",
            "source_commits": HOOK_COMMITS,
            "add_only": True,
        },
        "engines": [{
            "name": "runtime-monitor",
            "path": "/verif/check",
            "serves_properties": [c["property_id"] for c in checks],
            "kind_free_text": "fork-isolated generated workloads against sanitizer / assertion-enabled builds of /repo's working tree, "
                              "independent oracles and reference models evaluated on observed states; known-findings matching; evidence writer",
        }],
        "checks": checks,
        "notes": NOTES,
        "not_applicable": na,
    }
    with open(os.path.join(ROOT, "MANIFEST.json"), "w") as f:
        json.dump(m, f, indent=1)
        f.write("\n")
    # validate
    try:
        import jsonschema
        with open("/root/.vp/MANIFEST.schema.json") as f:
            schema = json.load(f)
        jsonschema.validate(m, schema)
        print("MANIFEST.json valid: %d checks, %d not_applicable" % (len(checks), len(na)))
    except ImportError:
        print("MANIFEST.json written (jsonschema not available for validation)")


if __name__ == "__main__":
    main()
