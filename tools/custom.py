"""Python-level workload parts (referenced from plans.py with {"custom": <function name>, ...})."""
import concurrent.futures
import json
import os
import re
import subprocess

from vconfig import BUILD, NPROC


def _classify_memcheck(text):
    lines = text.splitlines()
    for i, l in enumerate(lines):
        m = re.match(r"==\d+== (Conditional jump or move depends on uninitialised value|Use of uninitialised value|Invalid read|Invalid write|"
                     r"Syscall param .* uninitialised|Invalid free|Mismatched free|Source and destination overlap|Argument .* of function .* has a fishy)", l)
        if not m:
            continue
        kind = m.group(1).split(" of size")[0].replace(" ", "-").lower()[:50]
        where = ""
        for j in range(i + 1, min(i + 30, len(lines))):
            mm = re.search(r"\(([\w\.]+\.(?:cpp|hpp)):\d+\)", lines[j])
            if mm and ("/src/" in lines[j] or mm.group(1) in _LIBFILES):
                where = mm.group(1)
                break
        excerpt = "\n".join(lines[i:i + 25])
        return "memcheck:%s:%s" % (kind, where), excerpt
    return None, ""


_LIBFILES = {"coloquinte.cpp", "parameters.cpp", "export.cpp", "net_model.cpp", "density_legalizer.cpp", "density_grid.cpp",
             "place_global.cpp", "legalizer.cpp", "abacus_legalizer.cpp", "tetris_legalizer.cpp", "row_legalizer.cpp",
             "place_detailed.cpp", "detailed_placement.cpp", "incr_net_model.cpp", "row_neighbourhood.cpp", "transportation.cpp",
             "transportation_1d.cpp", "coloquinte.hpp", "helpers.hpp", "norm.hpp"}


def memcheck(pid, tier, seed, cases, env, outdir, run):
    """valgrind memcheck (uninitialised reads, which ASan cannot see) on a sample of replayed cases of an existing part,
    using the uninstrumented 'fast' build."""
    binp = os.path.join(BUILD, run["variant"], "bin", run["bin"])
    part = run["mpart"]
    e = dict(env)
    e.pop("ASAN_OPTIONS", None)

    def one(idx):
        cmd = ["valgrind", "--quiet", "--error-exitcode=99", "--leak-check=no", "--track-origins=no", "--num-callers=30",
               binp, "--part", part, "--seed", str(seed), "--replay-case", str(idx)]
        try:
            p = subprocess.run(cmd, env=e, stdout=subprocess.DEVNULL, stderr=subprocess.PIPE, text=True, timeout=1800)
        except subprocess.TimeoutExpired:
            return idx, "timeout", ""
        return idx, p.returncode, p.stderr

    viol, infra, completed, sigs = [], [], 0, set()
    with concurrent.futures.ThreadPoolExecutor(max_workers=NPROC) as ex:
        for idx, rc, err in ex.map(one, range(cases)):
            if rc == "timeout":
                infra.append("memcheck run of %s case %d timed out (inconclusive)" % (part, idx))
                continue
            key, excerpt = _classify_memcheck(err)
            if key:
                viol.append({"key": key, "msg": excerpt[:3000], "case": idx})
            elif rc == 99:
                viol.append({"key": "memcheck:error", "msg": err[-3000:], "case": idx})
            elif rc not in (0, 1):
                viol.append({"key": "memcheck-run:exit-%s" % rc, "msg": err[-2000:], "case": idx})
            completed += 1
            m = re.search(r"sig=(\S+)", err)
            sigs.add("mc:" + (m.group(1) if m else str(idx)))
    return {"part": run["part"], "variant": run["variant"], "cases": cases, "completed": completed, "nontrivial": completed, "crashed": 0,
            "inconclusive": 0, "sigs": sorted(sigs), "counters": {"valgrind_memcheck_runs": completed},
            "samples": [{"what": "valgrind memcheck on replayed cases 0..%d of part %s (fast build)" % (cases - 1, part)}],
            "violations": viol, "infra": infra}


def replay(pid, rep, env):
    """Replay of a violation found by a custom part."""
    if rep.get("part", "").startswith("memcheck."):
        import sys
        sys.stderr.write("re-run: valgrind --error-exitcode=99 %s --part %s --seed %s --replay-case %s\n" % (
            os.path.join(BUILD, "fast", "bin", rep.get("bin", "")), rep["part"][len("memcheck."):], rep["seed"], rep["case"]))
    return 2
