#!/usr/bin/env python3
"""Incremental builds of /repo's library sources and the harnesses, one ninja file per variant.

ninja re-runs a compile when the command line changed (flag edits are never ignored, unlike plain
make), when the source or any header recorded in the depfile has a newer mtime (git apply /
git checkout update mtimes), or when the output is missing.  A flock serialises concurrent checks.

usage: build.py [--variants asan,fast] [--targets h_flow,h_row] [--quiet]
"""
import fcntl
import os
import subprocess
import sys

sys.path.insert(0, os.path.dirname(os.path.abspath(__file__)))
from vconfig import BUILD, COMMON, HARNESSES, LIB_SOURCES, NPROC, REPO, VARIANTS, VERIF


def gen_ninja(variant, targets):
    flags = VARIANTS[variant]
    d = os.path.join(BUILD, variant)
    os.makedirs(os.path.join(d, "obj"), exist_ok=True)
    os.makedirs(os.path.join(d, "bin"), exist_ok=True)
    lines = [
        "cxx = g++",
        "cflags = %s %s -DVF_VARIANT=\\\"%s\\\"" % (COMMON, flags, variant),
        "ldflags = %s" % flags,
        "rule cc",
        "  command = $cxx $cflags $extra -MMD -MF $out.d -c $in -o $out",
        "  depfile = $out.d",
        "  deps = gcc",
        "  description = CC[%s] $in" % variant,
        "rule ar",
        "  command = rm -f $out && ar rcs $out $in",
        "  description = AR $out",
        "rule link",
        "  command = $cxx $ldflags $in -o $out -llemon -lpthread -ldl",
        "  description = LINK $out",
    ]
    objs = []
    for s in LIB_SOURCES:
        o = "obj/" + s.replace("/", "_").replace(".cpp", ".o")
        lines.append("build %s: cc %s/%s" % (o, REPO, s))
        objs.append(o)
    lines.append("build libcol.a: ar %s" % " ".join(objs))
    bins = []
    for name, (src, variants, extra, repo_srcs) in sorted(HARNESSES.items()):
        if variant not in variants:
            continue
        if not os.path.exists(os.path.join(VERIF, src)):
            continue
        hobjs = []
        o = "obj/%s.o" % name
        lines.append("build %s: cc %s/%s" % (o, VERIF, src))
        if extra:
            lines.append("  extra = %s" % extra)
        hobjs.append(o)
        for rs in repo_srcs:
            ro = "obj/%s__%s" % (name, rs.replace("/", "_").replace(".cpp", ".o"))
            lines.append("build %s: cc %s/%s" % (ro, REPO, rs))
            if extra:
                lines.append("  extra = %s" % extra)
            hobjs.append(ro)
        lines.append("build bin/%s: link %s libcol.a" % (name, " ".join(hobjs)))
        bins.append("bin/%s" % name)
    lines.append("build all: phony libcol.a %s" % " ".join(bins))
    lines.append("default all")
    path = os.path.join(d, "build.ninja")
    text = "\n".join(lines) + "\n"
    old = None
    if os.path.exists(path):
        with open(path) as f:
            old = f.read()
    if old != text:
        with open(path, "w") as f:
            f.write(text)
    return d


def build(variants, targets=None, quiet=False):
    os.makedirs(BUILD, exist_ok=True)
    lock = open(os.path.join(BUILD, ".lock"), "w")
    fcntl.flock(lock, fcntl.LOCK_EX)
    try:
        for v in variants:
            d = gen_ninja(v, targets)
            goal = []
            if targets:
                goal = ["bin/%s" % t for t in sorted(targets)
                        if v in HARNESSES[t][1] and os.path.exists(os.path.join(VERIF, HARNESSES[t][0]))]
                if not goal:
                    continue
            p = subprocess.run(["ninja", "-C", d, "-j", str(NPROC)] + goal, stdout=subprocess.PIPE,
                               stderr=subprocess.STDOUT, text=True)
            if p.returncode != 0:
                sys.stderr.write(p.stdout)
                return False
            if not quiet and "no work to do" not in p.stdout:
                sys.stderr.write("[build %s] %s\n" % (v, p.stdout.strip().splitlines()[-1]))
    finally:
        fcntl.flock(lock, fcntl.LOCK_UN)
        lock.close()
    return True


def main():
    variants = list(VARIANTS)
    targets = None
    quiet = False
    a = sys.argv[1:]
    while a:
        x = a.pop(0)
        if x == "--variants":
            variants = a.pop(0).split(",")
        elif x == "--targets":
            targets = set(a.pop(0).split(","))
        elif x == "--quiet":
            quiet = True
        else:
            sys.stderr.write("unknown argument %s\n" % x)
            return 2
    return 0 if build(variants, targets, quiet) else 2


if __name__ == "__main__":
    sys.exit(main())
