#!/bin/bash
# Independently confirm a seeded change: usage verify_seeded.sh <dir containing patch.diff run_demo.sh ...> <original worktree path used in the scripts>
# 1. fresh worktree of /repo HEAD, build, unit tests, demo must PASS (exit 0)
# 2. apply patch, rebuild, unit tests must still pass, demo must FAIL (exit != 0)
set -u
SD=$(readlink -f $1); ORIG=$2
W=$(mktemp -d /tmp/vs_XXXXXX); rmdir $W
git -C /repo worktree add --detach $W HEAD >/dev/null 2>&1 || { echo "worktree failed"; exit 2; }
cleanup() { git -C /repo worktree remove --force $W >/dev/null 2>&1; rm -rf $W; }
trap cleanup EXIT
mkdir -p $W/_seeded; rsync -a --exclude "build*" --exclude "_build*" --exclude "*.o" --exclude "*.so" --exclude "__pycache__" --exclude "out_*" $SD/ $W/_seeded/ ; find $W/_seeded -type f -size +2M -delete
grep -rlI "$ORIG" $W/_seeded 2>/dev/null | xargs -r sed -i "s#$ORIG#$W#g"
build() { (cd $W && cmake -G Ninja -S . -B _build -DCMAKE_BUILD_TYPE=RelWithDebInfo -DCMAKE_CXX_FLAGS=-Wno-error >/dev/null 2>&1 && cmake --build _build -j16 >/dev/null 2>&1); }
build || { echo "baseline build failed"; exit 2; }
(cd $W/_seeded && bash ./run_demo.sh > $W/demo_base.log 2>&1); rc_base=$?
git -C $W apply $W/_seeded/patch.diff || { echo "patch does not apply"; exit 2; }
build || { echo "patched build failed"; exit 2; }
(cd $W && ctest --test-dir _build -j8 > $W/ctest.log 2>&1); rc_test=$?
(cd $W/_seeded && bash ./run_demo.sh > $W/demo_mut.log 2>&1); rc_mut=$?
echo "demo_on_unchanged_rc=$rc_base unit_tests_with_change_rc=$rc_test demo_with_change_rc=$rc_mut"
tail -3 $W/demo_mut.log
if [ $rc_base -eq 0 ] && [ $rc_test -eq 0 ] && [ $rc_mut -ne 0 ]; then echo "CONFIRMED"; exit 0; else echo "NOT CONFIRMED"; tail -5 $W/demo_base.log; exit 1; fi
