#!/bin/bash
# Run every check of MANIFEST.json (tier in $1, default quick) and validate the evidence files.
TIER=${1:-quick}
cd "$(dirname "$(readlink -f "$0")")/.."
fail=0
for i in $(seq -w 1 20); do
  id=C$i
  s=$(date +%s)
  out=$(./check $id --tier $TIER 2>&1); rc=$?
  e=$(date +%s)
  echo "$id rc=$rc $((e-s))s $(echo "$out" | grep -E "^$id tier" | cut -c1-160)"
  if [ $rc -ne 0 ]; then fail=1; echo "$out" | grep -E "VIOLATION|HARNESS|^\s+\[" | head -5 | cut -c1-300; fi
done
python3-vt - <<'PY'
import json, jsonschema, glob
sch=json.load(open('/root/.vp/EVIDENCE.schema.json'))
bad=0
for f in sorted(glob.glob('evidence/C*.json')):
    try:
        jsonschema.validate(json.load(open(f)), sch)
    except Exception as e:
        bad+=1; print("INVALID", f, str(e)[:200])
print("evidence files valid" if not bad else "%d invalid evidence files" % bad)
PY
exit $fail
