#!/usr/bin/env python3
"""keep_seeded.py <name> <property> <src _seeded dir> <needs> <detected_by> <ran>  -> /verif/seeded/<name>/"""
import json, os, shutil, sys
name, prop, src, needs, detected, ran = sys.argv[1:7]
dst = os.path.join('/verif/seeded', name)
os.makedirs(dst, exist_ok=True)
for f in os.listdir(src):
    p = os.path.join(src, f)
    if os.path.isfile(p) and (f.endswith(('.diff', '.cpp', '.sh', '.md', '.py', '.hpp')) ) and 'FOREIGN' not in f and 'foreign' not in f:
        shutil.copy(p, os.path.join(dst, f))
meta = {"property": prop, "breaks": open(os.path.join(src, 'notes.md')).read()[:1500] if os.path.exists(os.path.join(src, 'notes.md')) else "",
        "needs_to_manifest": needs, "confirmed_by": "tools/verify_seeded.sh: fresh worktree of /repo HEAD; demo exits 0 on the unchanged tree; with patch.diff applied the library builds, the 10 ctest binaries pass and the demo exits non-zero",
        "checks_run": ran, "detected_by": detected}
json.dump(meta, open(os.path.join(dst, 'meta.json'), 'w'), indent=1)
print("kept", dst, os.listdir(dst))
