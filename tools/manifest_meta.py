# Per-property manifest texts (level claimed, trusted base, technique)
HOOK_COMMITS = []

NOTES = ("All checks are runtime monitors: they rebuild /repo's working tree (ninja, content of command line + mtimes) with "
         "-DCOLOQUINTE_VERIF into /verif/build/<variant>, run generated workloads in fork-isolated workers and evaluate "
         "independent oracles. Exit 0 held / 1 VIOLATION / 2 harness failure or inconclusive. VERIF_SEED selects the PRNG stream. "
         "known_findings.json lists recorded defects (KNOWN-FINDING lines) and fixed ones.")

NOT_APPLICABLE = {}

_T = "runtime monitoring: generated workloads + independent oracle over observed states, ASan/UBSan + library assertions"

LEVEL_TEXT = {
    "C01": {"text": "Exploration: thousands of generated circuits per run through Circuit::legalize in an ASan/UBSan+assert build; an "
                    "independent legality oracle judges every returned placement, a trivial-feasibility oracle judges every throw.",
            "note": "Trusted: the legality oracle in harness/circ.hpp (written from the property text), g++ sanitizer runtimes. Held only on the circuits generated.",
            "technique": _T},
    "C02": {"text": "Exploration on three layers: API (legality oracle in every Detailed callback and on return), optimiser (random pass "
                    "sequences on DetailedPlacer) and data structure (exhaustive BFS of swap/insert sequences on small instances).",
            "note": "Trusted: legality oracle, own re-derivation of row lists; exhaustive only within the stated small bounds.",
            "technique": _T + "; bounded exhaustive enumeration of move sequences"},
    "C03": {"text": "Exploration: field-wise frame diff of the whole Circuit before/after every stage and composition, including calls "
                    "that end in exceptions.", "note": "Trusted: snapshot/diff code; all Circuit members are public.", "technique": _T},
    "C04": {"text": "Exploration: own polarity table evaluated on every exposed state of legalize/placeDetailed.",
            "note": "Trusted: the 4x4 polarity table in harness/circ.hpp.", "technique": _T},
    "C05": {"text": "Exploration: wirelength recorded at each callback and on return must be non-increasing; a frozen-orientation "
                    "wirelength discriminates the recorded known finding from any other increase.",
            "note": "Trusted: reference HPWL (DEF transforms). Known finding recorded in known_findings.json.", "technique": _T},
    "C07": {"text": "Exploration, sanitizer-decided: the process is the oracle (ASan, UBSan incl. float-cast-overflow, assert, CPU budget) in "
                    "assertion-enabled and NDEBUG builds.", "note": "Non-termination decided as bounded progress (CPU budget, solo re-run at 10x).",
            "technique": "runtime monitoring: ASan+UBSan+assertions on degenerate / large-magnitude / parameter-fuzz workloads, fork isolation, CPU-time watchdog"},
    "C10": {"text": "Fault enumeration: every callback index of every generated run is used as a throw point (two exception types), "
                    "plus infeasible legalization and rejected parameters; setters probed inside every callback and after every ended call.",
            "note": "Fault points = callback invocations + library-raised errors; exhaustive per instance, instances sampled.",
            "technique": "runtime monitoring with exhaustive fault injection at callback boundaries"},
    "C11": {"text": "Exploration: legal placements from two sources re-legalized; any movement outside the recorded parameter region is a violation.",
            "note": "Known finding (orderingWidth outside [0,1]) recorded in known_findings.json.", "technique": _T},
}
