# Per-property manifest texts (level claimed, trusted base, technique)
HOOK_COMMITS = ["408bacd"]

NOTES = ("All checks are runtime monitors: they rebuild /repo's working tree (ninja, content of command line + mtimes) with "
         "-DCOLOQUINTE_VERIF into /verif/build/<variant>, run generated workloads in fork-isolated workers and evaluate "
         "independent oracles. Exit 0 held / 1 VIOLATION / 2 harness failure or inconclusive. VERIF_SEED selects the PRNG stream. "
         "known_findings.json lists recorded defects (KNOWN-FINDING lines) and fixed ones.")

NOT_APPLICABLE = {}

_T = "runtime monitoring: generated workloads + independent oracle over observed states, ASan/UBSan + library assertions"

LEVEL_TEXT = {
    "C01": {"text": "Exploration: thousands of generated circuits per run through Circuit::legalize in an ASan/UBSan+assert build; an "
                    "independent legality oracle judges every returned placement, a trivial-feasibility oracle judges every throw.",
            "note": "Trusted: the legality oracle in harness/circ.hpp (written from the property text), g++ sanitizer runtimes. Held only on the circuits generated.",
            "technique": _T},
    "C02": {"text": "Exploration on three layers: API (legality oracle in every Detailed callback and on return), optimiser (random pass "
                    "sequences on DetailedPlacer) and data structure (exhaustive BFS of swap/insert sequences on small instances).",
            "note": "Trusted: legality oracle, own re-derivation of row lists; exhaustive only within the stated small bounds.",
            "technique": _T + "; bounded exhaustive enumeration of move sequences"},
    "C03": {"text": "Exploration: field-wise frame diff of the whole Circuit before/after every stage and composition, including calls "
                    "that end in exceptions.", "note": "Trusted: snapshot/diff code; all Circuit members are public.", "technique": _T},
    "C04": {"text": "Exploration: own polarity table evaluated on every exposed state of legalize/placeDetailed.",
            "note": "Trusted: the 4x4 polarity table in harness/circ.hpp.", "technique": _T},
    "C05": {"text": "Exploration: wirelength recorded at each callback and on return must be non-increasing; a frozen-orientation "
                    "wirelength discriminates the recorded known finding from any other increase.",
            "note": "Trusted: reference HPWL (DEF transforms). Known finding recorded in known_findings.json.", "technique": _T},
    "C07": {"text": "Exploration, sanitizer-decided: the process is the oracle (ASan, UBSan incl. float-cast-overflow, assert, CPU budget) in "
                    "assertion-enabled and NDEBUG builds.", "note": "Non-termination decided as bounded progress (CPU budget, solo re-run at 10x).",
            "technique": "runtime monitoring: ASan+UBSan+assertions on degenerate / large-magnitude / blocked / 20k-250k-cell / parameter-fuzz workloads, fork isolation, CPU-time watchdog"},
    "C10": {"text": "Fault enumeration: every callback index of every generated run is used as a throw point (two exception types, and a third "
                    "kind that first re-sends sizes and net weights), plus infeasible legalization and rejected parameters; setters probed inside "
                    "every callback and, on the object itself, after every ended call; the follow-up call is compared with a pristine twin; "
                    "copies taken in a callback, other circuits placed from a callback and nested calls on the busy circuit are probed.",
            "note": "Fault points = callback invocations + library-raised errors; exhaustive per instance, instances sampled.",
            "technique": "runtime monitoring with exhaustive fault injection at callback boundaries"},
    "C11": {"text": "Exploration: legal placements from two sources re-legalized; any movement outside the recorded parameter region is a violation.",
            "note": "Known finding (orderingWidth outside [0,1]) recorded in known_findings.json.", "technique": _T},
    "C06": {"text": "Exploration: placeGlobal on generated circuits x fuzzed accepted parameter sets; monitors evaluated inside every "
                    "LowerBound/UpperBound callback and on return (finite coordinates, centre inside the rows' bounding box, blend identity).",
            "note": "Tolerance comparisons (rounding + float ulp) derived in DESIGN.md; one degenerate situation is a recorded known finding.",
            "technique": _T + " incl. -fsanitize=float-cast-overflow; callback-state monitors"},
    "C08": {"text": "Exploration of schedules: hook-forced completion orders of the two concurrent solves (both orders observed per run, logged), "
                    "single-core and all-core affinity, random delays, plus repeated/copied/interleaved runs for all stages, re-evaluation in a "
                    "freshly started process, call histories on one object compared with circuits rebuilt from the visible data, plus the "
                    "same workload under ThreadSanitizer.",
            "note": "Schedule coverage = the two completion orders per step and random begin delays, not all instruction interleavings; TSan judges the executions produced.",
            "technique": "runtime monitoring: schedule forcing through a guarded hook + bitwise comparison of results + ThreadSanitizer"},
    "C09": {"text": "Exploration: reference HPWL (own DEF transform table) vs Circuit::hpwl and per-pin transforms; IncrNetModel vs from-scratch "
                    "1-D HPWL over random update histories and cell subsets; DetailedPlacer::value vs reference after every pass.",
            "note": "Trusted: the 8-entry transform table in harness/circ.hpp.", "technique": _T + "; reference-model monitor over update histories"},
    "C12": {"text": "Exploration with an exhaustive core: all 3.7M insertion sequences within the stated small bounds plus random/large ones, "
                    "each judged by an isotonic-L1 DP optimum (cross-checked by brute force) and by prediction/push/state-unchanged oracles.",
            "note": "Exhaustive only within segment length <= 7, widths 1..3, <= 4 cells.", "technique": _T + "; reference-model (DP) monitor; bounded exhaustive enumeration"},
    "C13": {"text": "Exploration with an exhaustive tiny core: solver output judged by feasibility oracles and equality with an independent "
                    "min-cost-flow optimum (lemon NetworkSimplex, cross-checked by brute force).",
            "note": "Trusted: lemon NetworkSimplex in 64-bit.", "technique": _T + "; reference-model monitor"},
    "C14": {"text": "Exploration with an exhaustive tiny core: plan validity + optimal cost vs lemon; rounded assignment oracles; ASan watches the result vector.",
            "note": "Trusted: lemon NetworkSimplex.", "technique": _T + "; reference-model monitor"},
    "C15": {"text": "Exploration with an exhaustive small grid (2.9M obstacle configurations): set equality between returned segments and a per-column oracle.",
            "note": "Well-formed rectangles only; touching segments merged before comparison.", "technique": _T + "; bounded exhaustive enumeration"},
    "C16": {"text": "Exploration of histories: independent capacity oracle at construction, then conservation / one-bin / inside-bin invariants after "
                    "every step of random refine/coarsen/improve/run histories; library check() asserts live.",
            "note": "Trusted: free-segment oracle.", "technique": _T + "; invariant monitor at quiescent points of operation histories"},
    "C17": {"text": "Exploration, metamorphic + reference: bitwise invariance under power-of-two weight scaling (model and whole placeGlobal), tolerance "
                    "invariance under non-dyadic scaling, dense double-precision least-squares reference for star / two-pin models.",
            "note": "Tolerance comparisons restricted to positive-definite, well-conditioned (cond1 <= 2000) systems; otherwise normwise backward error.",
            "technique": "runtime monitoring: metamorphic relations between runs + dense reference solver"},
    "C18": {"text": "Exploration: frame, monotonicity and density-bound oracles against an independent available-area computation; brute-force congestion factors.",
            "note": "Rounding tolerances documented in DESIGN.md.", "technique": _T},
    "C19": {"text": "Exploration with exhaustive windows: every effort in [-16,32], every single out-of-range parameter x 3 entry points, all wrong-length "
                    "setters and malformed nets, one probe per forked process in ASan/UBSan+assert and NDEBUG+sanitizer builds.",
            "note": "NaN parameters are out of scope (not rejected by the check).", "technique": "runtime monitoring: sanitizer-decided probes in forked processes + frame oracle"},
    "C20": {"text": "Exploration (round trip through the real writer and the real Python reader, field-by-field comparison + wirelength) and an "
                    "exhaustive pass over the binding table (every registration executed and compared by value with the same-named C++ entity).",
            "note": "Trusted base: recording stand-in for pybind11, pure-Python stand-in for the compiled module, CPython. The real pybind11 is absent from the sandbox.",
            "technique": "runtime monitoring: round-trip oracle + recording stand-in executing the real binding code"},
}
