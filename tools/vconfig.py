# Shared configuration: build variants, harness binaries, and the per-property check plans.
import os

VERIF = os.path.dirname(os.path.dirname(os.path.abspath(__file__)))
REPO = os.environ.get("VERIF_REPO", "/repo")
BUILD = os.path.join(VERIF, "build")
GUARD = "COLOQUINTE_VERIF"

COMMON = "-std=gnu++17 -w -D%s -I%s/src -I%s/src/place_global -I%s/src/place_detailed -I%s/harness" % (
    GUARD, REPO, REPO, REPO, VERIF)

VARIANTS = {
    # default monitor build: ASan + UBSan (incl. float->int overflow), library assertions ON
    "asan": "-O1 -g -fno-omit-frame-pointer -fsanitize=address,undefined,float-cast-overflow "
            "-fno-sanitize-recover=all -D_GLIBCXX_ASSERTIONS",
    # volume build: the oracle (and the library's own asserts) are the monitors
    "fast": "-O2 -g",
    # what the pinned build ships: assertions compiled out, sanitizers still watching
    "ndebug": "-O2 -g -DNDEBUG -fno-omit-frame-pointer -fsanitize=address,undefined "
              "-fno-sanitize-recover=all",
    "tsan": "-O1 -g -fsanitize=thread",
}

LIB_SOURCES = [
    "src/coloquinte.cpp", "src/parameters.cpp", "src/export.cpp",
    "src/place_global/net_model.cpp", "src/place_global/density_legalizer.cpp",
    "src/place_global/density_grid.cpp", "src/place_global/place_global.cpp",
    "src/place_detailed/legalizer.cpp", "src/place_detailed/abacus_legalizer.cpp",
    "src/place_detailed/tetris_legalizer.cpp", "src/place_detailed/row_legalizer.cpp",
    "src/place_detailed/place_detailed.cpp", "src/place_detailed/detailed_placement.cpp",
    "src/place_detailed/incr_net_model.cpp", "src/place_detailed/row_neighbourhood.cpp",
    "src/place_global/transportation.cpp", "src/place_global/transportation_1d.cpp",
]

# harness binary -> (source, variants, extra compile flags, extra sources from the repo)
HARNESSES = {
    "h_flow":    ("harness/h_flow.cpp", ["asan", "fast", "ndebug"], "", []),
    "h_dp":      ("harness/h_dp.cpp", ["asan", "fast"], "-fno-access-control", []),
    "h_global":  ("harness/h_global.cpp", ["asan", "fast", "ndebug", "tsan"], "", []),
    "h_hpwl":    ("harness/h_hpwl.cpp", ["asan", "fast", "tsan"], "", []),
    "h_row":     ("harness/h_row.cpp", ["asan", "fast", "tsan"], "", []),
    "h_transp":  ("harness/h_transp.cpp", ["asan", "fast", "tsan"], "", []),
    "h_t1d":     ("harness/h_t1d.cpp", ["asan", "fast", "tsan"], "", []),
    "h_rows":    ("harness/h_rows.cpp", ["asan", "fast"], "", []),
    "h_density": ("harness/h_density.cpp", ["asan", "fast"], "", []),
    "h_weights": ("harness/h_weights.cpp", ["asan", "fast"], "", []),
    "h_expand":  ("harness/h_expand.cpp", ["asan", "fast"], "", []),
    "h_invalid": ("harness/h_invalid.cpp", ["asan", "ndebug"], "", []),
    "h_export":  ("harness/h_export.cpp", ["asan"], "-DVERIF_ROOT=\\\"%s\\\"" % VERIF, []),
    "h_bind":    ("harness/h_bind.cpp", ["asan"], "-I%s/harness/pybind_stub" % VERIF,
                  ["pycoloquinte/module.cpp"]),
}

NPROC = int(os.environ.get("VERIF_JOBS", "16"))
