#!/bin/bash
# Run checks against a seeded change: usage try_seeded.sh <patch.diff> <tier> <check ids...>
# Applies the patch to /repo's working tree, runs the checks (evidence redirected), and ALWAYS reverts the working tree.
set -u
P=$(readlink -f $1); TIER=$2; shift 2
cd /verif
if [ -n "$(git -C /repo status --porcelain --untracked-files=no)" ]; then echo "/repo has local modifications, refusing"; exit 2; fi
git -C /repo apply $P || { echo "patch does not apply"; exit 2; }
trap 'git -C /repo checkout -- . ; echo "[reverted /repo]"' EXIT
export VERIF_EVIDENCE_DIR=/verif/build/trial_evidence
for id in "$@"; do
  s=$(date +%s)
  out=$(./check $id --tier $TIER 2>&1); rc=$?
  e=$(date +%s)
  echo "== $id rc=$rc $((e-s))s"
  echo "$out" | grep -E "^\s+\[|  key |KNOWN|HARNESS" | head -8 | cut -c1-330
done
