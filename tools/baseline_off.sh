#!/bin/bash
# Build /repo WITHOUT the verification guard (plain CMake configuration of the pinned build) outside
# the repository and run the pinned test suite (10 Boost test binaries, 68 test cases).
set -u
REPO=${VERIF_REPO:-/repo}
B=/verif/build/baseline
mkdir -p $B
cmake -G Ninja -S $REPO -B $B -DCMAKE_BUILD_TYPE=RelWithDebInfo -DCMAKE_CXX_FLAGS=-Wno-error >$B/configure.log 2>&1 || { cat $B/configure.log; echo "BASELINE configure failed"; exit 2; }
cmake --build $B -j 16 >$B/build.log 2>&1 || { tail -50 $B/build.log; echo "BASELINE build failed"; exit 2; }
ctest --test-dir $B -j8 --timeout 900 --output-junit $B/junit.xml >$B/ctest.log 2>&1
rc=$?
tail -15 $B/ctest.log
pass=0; fail=0
for t in $B/test/test_*; do
  [ -x "$t" ] || continue
  out=$($t --log_level=test_suite --color_output=no 2>&1)
  n=$(echo "$out" | grep -c 'Leaving test case')
  e=$(echo "$out" | grep -c -E 'error: in "|fatal error')
  if echo "$out" | grep -q 'No errors detected'; then pass=$((pass+n)); else fail=$((fail+1)); echo "$out" | tail -5; fi
done
echo "baseline (guard off): test cases passed=$pass failing binaries=$fail ctest_rc=$rc"
if [ $rc -ne 0 ] || [ $fail -ne 0 ] || [ $pass -lt 68 ]; then exit 1; fi
exit 0
