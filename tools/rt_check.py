#!/usr/bin/env python3
"""C20 (a) monitor: re-reads a benchmark written by the real Circuit::exportIspd with the real
pycoloquinte/coloquinte.py reader (the compiled module replaced by harness/py_stub) and compares it field by
field with the ground truth dumped by the C++ harness, including the reference wirelength of the re-read data.

usage: rt_check.py --server    (reads one base path per line on stdin, answers one JSON line each)
       rt_check.py <base>
"""
import json
import os
import sys

ROOT = os.path.dirname(os.path.dirname(os.path.abspath(__file__)))
REPO = os.environ.get("VERIF_REPO", "/repo")
sys.path.insert(0, os.path.join(ROOT, "harness", "py_stub"))
sys.path.insert(0, os.path.join(REPO, "pycoloquinte"))
import coloquinte  # noqa: E402  (the real reader)


def pin_pos(orient, w, h, ox, oy):
    # DEF orientation semantics, own table
    return {
        "N": (ox, oy), "S": (w - ox, h - oy), "W": (h - oy, ox), "E": (oy, w - ox),
        "FN": (w - ox, oy), "FS": (ox, h - oy), "FW": (oy, ox), "FE": (h - oy, w - ox),
    }[orient]


def check(base):
    bad = []
    with open(base + ".truth.json") as f:
        t = json.load(f)
    try:
        c = coloquinte.Circuit.read_ispd(base + ".aux")
    except Exception as e:  # noqa: BLE001
        return [["C20:reader-failed", "%s: %s" % (type(e).__name__, e)]]
    n = len(t["cells"])
    if c.nb_cells != n:
        return [["C20:cell-count", "%d vs %d" % (c.nb_cells, n)]]
    for i, (w, h, fixed, x, y, o) in enumerate(t["cells"]):
        if (c.cell_width[i], c.cell_height[i]) != (w, h):
            bad.append(["C20:cell-size", "cell %d: read %s wrote %s" % (i, (c.cell_width[i], c.cell_height[i]), (w, h))])
        if bool(c.cell_is_fixed[i]) != bool(fixed):
            bad.append(["C20:fixed-flag", "cell %d" % i])
        if (c.cell_x[i], c.cell_y[i]) != (x, y):
            bad.append(["C20:cell-position", "cell %d: read %s wrote %s" % (i, (c.cell_x[i], c.cell_y[i]), (x, y))])
        if c.cell_orientation[i].name != o:
            bad.append(["C20:cell-orientation", "cell %d: read %s wrote %s" % (i, c.cell_orientation[i].name, o)])
    if len(c.nets) != len(t["nets"]):
        bad.append(["C20:net-count", "%d vs %d" % (len(c.nets), len(t["nets"]))])
    else:
        for j, pins in enumerate(t["nets"]):
            cells = [p[0] for p in pins]
            xo = [p[1] for p in pins]
            yo = [p[2] for p in pins]
            if c.nets[j][0] != cells:
                bad.append(["C20:net-connectivity", "net %d: read %s wrote %s" % (j, c.nets[j][0], cells)])
            elif c.nets[j][1] != xo or c.nets[j][2] != yo:
                bad.append(["C20:pin-offsets", "net %d: read x %s y %s, circuit has x %s y %s" % (j, c.nets[j][1], c.nets[j][2], xo, yo)])
    if len(c.rows) != len(t["rows"]):
        bad.append(["C20:row-count", "%d vs %d" % (len(c.rows), len(t["rows"]))])
    else:
        for j, (a, b, cc, d, o) in enumerate(t["rows"]):
            r = c.rows[j]
            if (r.min_x, r.max_x, r.min_y, r.max_y) != (a, b, cc, d):
                bad.append(["C20:row-geometry", "row %d" % j])
            if r.orientation.name != o:
                bad.append(["C20:row-orientation", "row %d: read %s wrote %s" % (j, r.orientation.name, o)])
    if not bad:
        # wirelength of the re-read data with the reference transform
        tot = 0
        for cells, xo, yo in c.nets:
            xs, ys = [], []
            for cell, ox, oy in zip(cells, xo, yo):
                px, py = pin_pos(c.cell_orientation[cell].name, c.cell_width[cell], c.cell_height[cell], ox, oy)
                xs.append(c.cell_x[cell] + px)
                ys.append(c.cell_y[cell] + py)
            if xs:
                tot += max(xs) - min(xs) + max(ys) - min(ys)
        if tot != t["hpwl"]:
            bad.append(["C20:wirelength", "re-read data gives %d, Circuit::hpwl() was %d" % (tot, t["hpwl"])])
    # de-duplicate by key
    seen = {}
    for k, m in bad:
        seen.setdefault(k, m)
    return [[k, m] for k, m in seen.items()]


def main():
    if len(sys.argv) > 1 and sys.argv[1] == "--server":
        for line in sys.stdin:
            base = line.strip()
            if not base:
                continue
            try:
                res = check(base)
            except Exception as e:  # noqa: BLE001
                res = [["harness:rt-check-failed", "%s: %s" % (type(e).__name__, e)]]
            flat = []
            for k, m in res:
                flat += [k, m.replace("\t", " ").replace("\n", " ")]
            sys.stdout.write("\t".join((["BAD"] + flat) if flat else ["OK"]) + "\n")
            sys.stdout.flush()
        return 0
    res = check(sys.argv[1])
    print(json.dumps(res))
    return 1 if res else 0


if __name__ == "__main__":
    sys.exit(main())
