# Per-property check plans: which harness parts run, in which build variant, with how many cases
# (quick, thorough).  Bounds are case counts, never seconds.


def R(bin_, variant, part, quick, thorough, **kw):
    d = {"bin": bin_, "variant": variant, "part": part, "cases": (quick, thorough)}
    d.update(kw)
    return d


def MC(bin_, part, thorough):
    # valgrind memcheck on replayed cases of an existing part (uninstrumented fast build), thorough tier only
    return {"custom": "memcheck", "bin": bin_, "variant": "fast", "part": "memcheck." + part, "mpart": part, "cases": (0, thorough)}


def flow(prefix, profiles, variant, quick, thorough, **kw):
    return [R("h_flow", variant, "%s.%s" % (prefix, p), quick, thorough, **kw) for p in profiles]


C01_PROFILES = ["general", "rowhigh-any", "multirow", "turned", "polarity", "dense", "obstruction", "big"]
COMB = ["comb", "staggered"]
CROWDED = ["crowded"]
FARAWAY = ["faraway"]

PLANS = {
    "C01": {
        "level": "exploration",
        "rule": "generated circuits of the C01 domain (profiles: general, row-high/no-polarity, multi-row heavy, turned, "
                "polarity heavy, dense 85-110%, obstruction heavy, large magnitude) x random efforts and legalization ordering "
                "parameters; a case is non-trivial when legalize returned and moved >= 1 cell or threw; distinct = distinct "
                "feature signatures {split rows, gaps, obstruction on a row, multi-row, turned, far start, #polarity kinds, "
                "utilisation bucket, size bucket, outcome, trivially-feasible}. Part c01.components: the two component legalizers "
                "(TetrisLegalizer, AbacusLegalizer) constructed directly from the free row segments and cells Legalizer would hand "
                "them, once with the row list as produced and once reversed or shuffled: same outcome, bit-identical result, and "
                "every cell reported placed lies in free segments of the list without overlapping another",
        "assumptions": ["legality oracle written from the property text (independent of library helpers)",
                        "g++ ASan/UBSan runtimes; library assert()s compiled in (asan, fast builds)"],
        "trusted_base": ["harness/circ.hpp legality oracle", "g++ 12 sanitizer runtimes"],
        "runs": flow("c01", C01_PROFILES, "asan", 4000, 12000) + flow("c01", C01_PROFILES, "fast", 0, 60000)
                + flow("c01", COMB, "asan", 600, 3000) + [R("h_flow", "asan", "c01.staged", 3000, 12000)]
                + [R("h_flow", "asan", "c01.components", 6000, 10000), R("h_flow", "fast", "c01.components", 0, 50000)]
                + flow("c01", CROWDED, "asan", 1500, 6000) + flow("c01", CROWDED, "fast", 0, 40000)
                + flow("c01", FARAWAY, "asan", 2000, 8000) + flow("c01", FARAWAY, "fast", 0, 40000),
    },
    "C02": {
        "level": "exploration",
        "rule": "API layer: placeDetailed with default and hostile parameter sets on generated C01-domain circuits, legality "
                "oracle inside every Detailed callback and on return; non-trivial = detailed placement returned and moved >= 1 "
                "cell; distinct = feature signature x outcome x callback count. Optimiser layer: random pass sequences on a "
                "DetailedPlacer. Data-structure layer: exhaustive BFS over swap/insert sequences on small DetailedPlacement instances",
        "assumptions": ["legality oracle independent of the library", "tall cells compared with the first callback state and the legalize-only copy"],
        "runs": flow("c02.api", C01_PROFILES, "asan", 1500, 6000) + flow("c02.api", C01_PROFILES, "fast", 0, 10000)
                + flow("c02.api", COMB, "asan", 300, 1500)
                + flow("c02.api", CROWDED, "asan", 400, 2000) + flow("c02.api", CROWDED, "fast", 0, 10000)
                + flow("c02.api", FARAWAY, "asan", 1000, 4000) + flow("c02.api", FARAWAY, "fast", 0, 10000)
                + [R("h_dp", "asan", "c02.opt", 6000, 30000), R("h_dp", "fast", "c02.opt", 0, 60000), R("h_dp", "asan", "c02.reorder", 4000, 20000),
                   R("h_dp", "fast", "c02.ds.closure", 1080, 1080, exhaustive=True),
                   R("h_dp", "asan", "c02.ds.walk", 20000, 200000)],
    },
    "C03": {
        "level": "exploration",
        "rule": "frame snapshot (all Circuit fields) before / field-wise diff after legalize, placeDetailed, placeGlobal and "
                "compositions, with and without callbacks, including calls ending in an exception (callback throws at a random "
                "index, infeasible legalization, rejected parameters); non-trivial = circuit has fixed cells and the stage ran; "
                "distinct = feature signature x outcome x number of fixed cells",
        "assumptions": ["all Circuit data members are public and compared field by field"],
        "runs": flow("c03.flow", ["general", "manyfixed", "dense", "obstruction"], "asan", 2000, 8000)
                + flow("c03.flow", ["crowded", "faraway", "big"], "asan", 600, 3000)
                + [R("h_flow", "asan", "c03.global", 1500, 6000), R("h_flow", "asan", "c03.nudge", 3000, 12000)]
                + flow("c03.flow", ["general", "manyfixed", "dense", "obstruction"], "fast", 0, 15000)
                + [R("h_flow", "fast", "c03.global", 0, 15000)],
    },
    "C04": {
        "level": "exploration",
        "rule": "polarity oracle (own row-orientation x polarity table) on the states exposed by legalize, by every Detailed "
                "callback and on return of placeDetailed; non-trivial = polarised movable cells present and the call returned; "
                "distinct = feature signature x outcome",
        "assumptions": [],
        "runs": flow("c04", C01_PROFILES, "asan", 2000, 8000) + flow("c04", ["polarity", "multirow", "general"], "fast", 0, 20000)
                + [R("h_dp", "asan", "c04.opt", 6000, 30000), R("h_dp", "fast", "c04.opt", 0, 60000), R("h_dp", "asan", "c04.reorder", 6000, 30000)]
                + flow("c04", COMB, "asan", 300, 1500)
                + flow("c04", CROWDED, "asan", 400, 2000) + flow("c04", CROWDED, "fast", 0, 10000)
                + flow("c04", FARAWAY, "asan", 1000, 4000),
    },
    "C05": {
        "level": "exploration",
        "rule": "Circuit::hpwl() (cross-checked against the reference HPWL) recorded at every Detailed callback and on return; "
                "must be non-increasing and end <= legalize-only copy; non-trivial = wirelength strictly decreased at least once; "
                "distinct = feature signature x outcome x callback count. Part c05.meddle: Detailed callbacks from the second on write "
                "positions of movable cells (multi-row ones included) through the setters that stay available during a call; the "
                "exposed wirelengths must not rise, except where the same run under a passive callback shows the same rise (that one "
                "is judged by the c05.* flow parts)",
        "assumptions": ["a rise is attributed to the known finding only if the frozen-orientation wirelength did not rise and a polarised cell with pins changed orientation"],
        "runs": flow("c05", ["general", "nets", "polarity", "dense", "multirow", "rowhigh-any"], "asan", 2000, 8000)
                + flow("c05", ["general", "nets", "polarity", "dense", "multirow", "rowhigh-any"], "fast", 0, 12000)
                + [R("h_dp", "asan", "c05.opt", 6000, 30000), R("h_dp", "fast", "c05.opt", 0, 60000), R("h_dp", "asan", "c05.reorder", 12000, 40000), R("h_dp", "fast", "c05.reorder", 30000, 200000)]
                + [R("h_flow", "asan", "c05.meddle", 4000, 8000), R("h_flow", "fast", "c05.meddle", 0, 30000)]
                + flow("c05", CROWDED, "asan", 400, 2000) + flow("c05", CROWDED, "fast", 0, 10000)
                + flow("c05", FARAWAY, "asan", 2000, 8000) + flow("c05", FARAWAY, "fast", 0, 20000)
                + flow("c05", ["big"], "asan", 1000, 4000) + flow("c05", ["staggered"], "asan", 600, 3000),
    },
    "C07": {
        "level": "exploration",
        "rule": "placeGlobal / legalize / placeDetailed (random subset and order global->legalize->detailed) on generated, degenerate "
                "and large-magnitude circuits and fuzzed parameter sets; the oracle is the process: END marker reached, no sanitizer "
                "report, no assert, no non-std exception, CPU budget respected (re-run alone with 10x budget before a hang verdict); "
                "every case is non-trivial; distinct = profile x feature signature x stage mask",
        "assumptions": ["non-termination is decided as bounded progress: 120 s CPU then 1200 s CPU alone"],
        "runs": flow("c07", ["general", "big", "wide", "dense", "multirow", "obstruction", "paramfuzz"], "asan", 200, 3000)
                + flow("c07", ["general", "big", "wide", "dense", "multirow", "obstruction", "paramfuzz"], "ndebug", 200, 3000)
                + flow("c07", ["degenerate"], "asan", 1000, 6000) + flow("c07", ["degenerate"], "ndebug", 400, 3000)
                + flow("c07", ["floating"], "asan", 1200, 12000) + flow("c07", ["floating"], "ndebug", 600, 6000)
                + flow("c07", ["blocked"], "asan", 800, 8000) + flow("c07", ["blocked"], "ndebug", 200, 3000)
                + flow("c07", ["scale"], "asan", 8, 32) + flow("c07", ["scale"], "fast", 16, 64)
                + [MC("h_flow", "c07.general", 48), MC("h_flow", "c07.degenerate", 48), MC("h_flow", "c07.paramfuzz", 48)],
    },
    "C10": {
        "level": "fault_enumeration",
        "rule": "per instance x stage: count callbacks K, then re-run with the callback throwing at every index 1..K (std and "
                "non-std exception types); inside every callback all 7 structural setters must be refused and change nothing; "
                "after every ended call all setters must be accepted on a copy and a further placement call must end normally; "
                "non-trivial = K > 0; distinct = stage x K x outcome",
        "assumptions": ["fault points are the callback invocations (the only user code run inside a placement call) plus infeasible legalization and rejected parameters"],
        "runs": [R("h_flow", "asan", "c10.enum", 1500, 6000), R("h_flow", "fast", "c10.enum", 0, 6000)],
    },
    "C11": {
        "level": "exploration",
        "rule": "legal single-row placements from (i) legalize of random row-high circuits and (ii) direct packing into free segments, "
                "legalized again: no x/y may change; non-trivial = >= 2 movable cells re-legalized; distinct = feature signature x "
                "orderingWidth region (inside/outside [0,1]) x source",
        "assumptions": ["|v| < 2^20 so that the float ordering key is exact"],
        "runs": flow("c11.relegalize", ["general", "rowhigh", "obstruction", "polarity", "dense"], "asan", 3000, 10000)
                + [R("h_flow", "asan", "c11.constructed", 10000, 40000)]
                + flow("c11.relegalize", CROWDED, "asan", 600, 3000) + flow("c11.relegalize", ["big20"], "asan", 2000, 8000)
                + flow("c11.relegalize", COMB, "asan", 600, 3000)
                + flow("c11.relegalize", ["general", "rowhigh", "obstruction", "polarity", "dense"], "fast", 0, 20000)
                + [R("h_flow", "fast", "c11.constructed", 0, 60000)],
    },
    "C09": {
        "level": "exploration",
        "rule": "(a) Circuit::hpwl, pinX/YOffset, placedWidth/Height vs the DEF-transform reference on circuits with arbitrary "
                "orientations (all 8, also on fixed cells), positions and pin offsets incl. far outside the outline, repeated cells, "
                "single-pin nets; (b) IncrNetModel x/y topologies over all cells, random subsets, the empty subset and shuffled "
                "orders: initial value and value after each of up to 30 random updateCellPos vs a from-scratch 1-D HPWL, check() after "
                "each; (c) DetailedPlacer::value() vs frozen-orientation reference after every optimiser pass; non-trivial = pins "
                "checked / updates applied / cells moved; distinct = orientation set, axis, mode, sizes",
        "assumptions": ["reference pin transform table in harness/circ.hpp (DEF semantics)"],
        "runs": [R("h_hpwl", "asan", "c09.hpwl", 100000, 400000), R("h_hpwl", "asan", "c09.incr", 50000, 200000),
                 R("h_hpwl", "fast", "c09.hpwl", 0, 1000000), R("h_hpwl", "fast", "c09.incr", 0, 400000),
                 R("h_hpwl", "tsan", "c09.threads", 96, 480), R("h_dp", "asan", "c09.opt", 5000, 20000), R("h_dp", "asan", "c09.reorder", 4000, 20000), R("h_dp", "fast", "c09.opt", 0, 40000)],
    },
    "C12": {
        "level": "exploration",
        "rule": "exhaustive: every insertion sequence of <= 4 cells (widths 1..3, targets in [b-3,e+3]) into segments [b,b+L), "
                "L<=7, b in {-1,1}; per sequence: getCost twice == push, queried vs never-queried legalizer "
                "identical, placement ordered/non-overlapping/inside, displacement == optimum (isotonic-L1 DP cross-checked by brute "
                "force), sum of reported costs == optimum. Random: up to 40 cells, segments up to 2000, random query masks; "
                "coordinates up to 2^22 with the isotonic DP oracle. non-trivial = >= 2 cells; distinct = (b,L,first cell) family or "
                "size/fill bucket",
        "assumptions": ["isotonic-L1 DP over the candidate set is exact (cross-checked against brute force for segments <= 300)"],
        "runs": [R("h_row", "fast", "c12.exhaustive7", 588, 588, exhaustive=True),
                 R("h_row", "asan", "c12.random", 100000, 400000), R("h_row", "asan", "c12.big", 30000, 200000),
                 R("h_row", "tsan", "c12.threads", 160, 800), R("h_row", "fast", "c12.random", 0, 1000000), R("h_row", "fast", "c12.big", 0, 400000)],
    },
    "C13": {
        "level": "exploration",
        "rule": "random problems 1..60 sources x 1..16 sinks (int and float costs, ties, zeros, geometric |position| costs, spreads to "
                "10^6, balanced / slack / after increaseCapacity) and exhaustive tiny problems (<=3 sources x <=3 sinks, demands and "
                "capacities 1..3, every cost matrix over {0,1} quick / {0,1,2} thorough); oracle = feasibility + equality with the "
                "lemon NetworkSimplex optimum in 64-bit on the solver's own integer cost matrix, lemon cross-checked by brute-force "
                "enumeration on tiny instances; toAssignment = arg-max per source; float->fixed-point monotone with bounded error; "
                "non-trivial = >= 2 sources and >= 2 sinks; distinct = cost type, sizes, cost range, balance",
        "assumptions": ["lemon NetworkSimplex is exact (cross-checked by brute force for tiny sizes)", "integer costs below 2^29/nbSinks"],
        "runs": [R("h_transp", "asan", "c13.random", 100000, 400000), R("h_transp", "fast", "c13.exhaustive2", 1521, 1521, exhaustive=True),
                 R("h_transp", "fast", "c13.exhaustive3", 0, 1521, exhaustive=True), R("h_transp", "fast", "c13.random", 0, 600000),
                 R("h_transp", "fast", "c13.cascade", 4000000, 12000000), R("h_transp", "asan", "c13.cascade", 50000, 300000),
                 R("h_transp", "tsan", "c13.threads", 160, 800), R("h_transp", "fast", "c13.nearfull", 100000, 1000000), R("h_transp", "asan", "c13.nearfull", 20000, 100000)],
    },
    "C14": {
        "level": "exploration",
        "rule": "random instances (1..40 sources, 1..12 sinks, unsorted and duplicate positions up to 10^8, supplies/demands up to "
                "10^6, exact balance / slack / deficit repaired by balanceDemand, with and without zero supplies and zero demands) "
                "and exhaustive tiny instances (<=3x3, positions 0..2, supplies and demands 0..2); oracle = plan validity + cost "
                "equality with lemon NetworkSimplex; assign(): length, positive-demand sinks, unsplit sources follow the plan; ASan "
                "guards the result vector; non-trivial = >= 2 sources and >= 2 sinks; distinct = sizes, magnitude buckets, zeros, balance",
        "assumptions": ["lemon NetworkSimplex is exact"],
        "runs": [R("h_t1d", "asan", "c14.random", 50000, 300000), R("h_t1d", "asan", "c14.zeros", 50000, 300000),
                 R("h_t1d", "asan", "c14.exhaustive", 4563, 4563, exhaustive=True),
                 R("h_t1d", "fast", "c14.random", 0, 500000), R("h_t1d", "fast", "c14.zeros", 0, 500000),
                 MC("h_t1d", "c14.zeros", 64), R("h_t1d", "tsan", "c14.threads", 160, 800)],
    },
    "C15": {
        "level": "exploration",
        "rule": "Row::freespace and Circuit::computeRows vs a per-column oracle (a column of the row is free iff no positive-area "
                "obstacle overlaps it) on small coordinates and an interval oracle on coordinates up to 2^22; exhaustive: rows of "
                "width 1..5 x height 1..2 with every set of <= 2 obstacle rectangles of a 7x5 integer grid incl. zero-size ones "
                "(2.9M configurations); random: up to 8 obstacles, overlapping / enclosing / touching / degenerate; computeRows with "
                "all four fixed x obstruction flag combinations, movable cells and extra obstacles; non-trivial = some obstacle "
                "overlaps the row; distinct = sizes, obstacle counts, flag combinations, number of segments",
        "assumptions": ["well-formed rectangles only (max >= min)", "touching returned segments are merged before comparison: the property asks for disjoint covering segments, not maximal ones"],
        "runs": [R("h_rows", "asan", "c15.random", 300000, 1200000), R("h_rows", "asan", "c15.computeRows", 30000, 120000),
                 R("h_rows", "fast", "c15.exhaustive", 7570, 7570, exhaustive=True),
                 R("h_rows", "fast", "c15.random", 0, 4000000), R("h_rows", "fast", "c15.computeRows", 0, 300000)],
    },
    "C18": {
        "level": "exploration",
        "rule": "expandCellsToDensity (targets in (0,1), margins 0..2, caps 0.02..1.2), expandCellsByFactor (factors 1..9, density caps, "
                "margins) and computeCellExpansion (up to 8 overlapping regions, congestion 0..3, penalties) on generated circuits "
                "with mixed heights, fixed cells, zero-size cells and obstructed rows; oracles: frame (only movable widths change), "
                "monotonicity, density bounds against an independent available-area computation, brute-force max over intersecting "
                "congested regions; non-trivial = some cell widened / expanded; distinct = branch taken x margin/cap x circuit features",
        "assumptions": ["tolerances: one max cell height of carry (to-density), one area unit per movable cell of float->int truncation (by-factor), float rounding 1.3e-7 relative on w*f"],
        "runs": [R("h_expand", "asan", "c18.density", 50000, 200000), R("h_expand", "asan", "c18.factor", 50000, 200000),
                 R("h_expand", "asan", "c18.congestion", 50000, 200000),
                 R("h_expand", "fast", "c18.density", 0, 500000), R("h_expand", "fast", "c18.factor", 0, 500000), R("h_expand", "fast", "c18.congestion", 0, 300000)],
    },
    "C16": {
        "level": "exploration",
        "rule": "DensityLegalizer::fromIspdCircuit on generated circuits (obstructions, split rows, margins 0..1.5, bin factor 1..7): bin "
                "limits monotone and tiling the bounding box of the clipped free rows, every bin capacity == free area inside it "
                "(independent free-segment oracle), sum over bins == free area; then random histories (<= 12 steps) over refineX/Y, "
                "coarsenX/Y, refine, improve, run, coarsenFully, refineFully with random accepted parameter sets, cost models and "
                "targets (inside, outside, coincident): after every step each positive-demand cell in exactly one bin, zero-demand "
                "cells in none, coarse capacities sum to the same total, spread coordinates finite and inside the cell's bin; at the end "
                "a second legalizer is built from the state left behind (converting constructor): same view and allocation, same "
                "invariants, also after one more pass; the library's own check() asserts are live; non-trivial = >= 1 history step applied; distinct = grid shape, obstruction, "
                "margin, cost model, transport, history length, levels visited",
        "assumptions": ["free-segment oracle of harness/circ.hpp", "the area of a single cell stays below 2^30 (cell demands are 32-bit integers in the density legalizer)"],
        "runs": [R("h_density", "asan", "c16.history", 10000, 30000), R("h_density", "fast", "c16.history", 0, 120000)],
    },
    "C17": {
        "level": "exploration",
        "rule": "metamorphic + reference model on NetModel and placeGlobal: (a) all net weights and penalty strengths x 2^k, k in "
                "[-3,4]\\{0}: solveStar/solve/solveWithPenalty results and whole placeGlobal placements must be bit-identical; (b) "
                "non-dyadic factors 2.5, 7, 0.3: max difference <= 2e-3 x span on well-posed instances; (c) solveStar (any degree) and "
                "two-pin nets under all four net models with/without penalty vs dense normal equations solved in double (Gaussian "
                "elimination, partial pivoting), same tolerance, positive-definite and well-conditioned instances only; weights "
                "include 0.125..0.5 and 1.5, 2.5; non-trivial = some weight (or scaled weight) is not an integer; distinct = API, net "
                "model, factor, size",
        "assumptions": ["CG tolerance 1e-8 / 5000 iterations for tolerance comparisons", "forward bound = 4 (star) / 40 (two-pin) x cond1 x 6e-8 x span, calibrated on the unchanged tree (all star instances < 1 x, all two-pin instances < 10 x)", "float operations scale exactly by powers of two (no under/overflow in the magnitudes used)"],
        "runs": [R("h_weights", "asan", "c17.lsq.star", 16000, 80000), R("h_weights", "asan", "c17.lsq.twopin", 16000, 80000),
                 R("h_weights", "asan", "c17.pow2.model", 16000, 80000), R("h_weights", "asan", "c17.scale.model", 16000, 80000),
                 R("h_weights", "asan", "c17.pow2.global", 1600, 8000),
                 R("h_weights", "fast", "c17.lsq.star", 0, 200000), R("h_weights", "fast", "c17.lsq.twopin", 0, 200000),
                 R("h_weights", "fast", "c17.pow2.model", 0, 200000), R("h_weights", "fast", "c17.scale.model", 0, 200000),
                 R("h_weights", "fast", "c17.pow2.global", 0, 20000)],
    },
    "C19": {
        "level": "exploration",
        "rule": "one probe per forked case in the ASan/UBSan+assert build and in the NDEBUG+sanitizer build: ColoquinteParameters(e) for "
                "every e in [-16,32] (exhaustive window) and INT_MIN/INT_MAX/random 32-bit values (throws iff e outside 1..9, e in 1..9 "
                "passes check()); 67 single out-of-range parameter assignments x 3 entry points (exhaustive) and random combinations "
                "(must throw, zero callbacks, circuit identical); randomised probes: a random ACCEPTED parameter set with exactly one of 47 documented constraints violated by a random amount (independent model of the ranges); 12 vector setters x lengths n-1, n+1, 0; malformed nets (length "
                "mismatches, pin cells -1, n, INT_MAX, INT_MIN, inconsistent limits) via addNet/setNets followed by check / hpwl / "
                "placement / report: an error must be raised before any work; every case non-trivial; distinct = probe identity",
        "assumptions": ["NaN parameter values are not rejected by the parameter check and are out of scope"],
        "runs": [R("h_invalid", "asan", "c19.effort.window", 49, 49, exhaustive=True), R("h_invalid", "ndebug", "c19.effort.window", 49, 49, exhaustive=True),
                 R("h_invalid", "asan", "c19.effort.random", 400, 2000), R("h_invalid", "ndebug", "c19.effort.random", 400, 2000),
                 R("h_invalid", "asan", "c19.params.single", 201, 603, exhaustive=True), R("h_invalid", "ndebug", "c19.params.single", 201, 603, exhaustive=True),
                 R("h_invalid", "asan", "c19.params.combo", 600, 6000), R("h_invalid", "ndebug", "c19.params.combo", 300, 3000),
                 R("h_invalid", "asan", "c19.params.random", 6000, 60000), R("h_invalid", "ndebug", "c19.params.random", 3000, 30000),
                 R("h_invalid", "asan", "c19.setters", 360, 3600), R("h_invalid", "ndebug", "c19.setters", 360, 3600),
                 R("h_invalid", "asan", "c19.nets", 960, 9600), R("h_invalid", "ndebug", "c19.nets", 960, 9600),
                 R("h_invalid", "asan", "c19.params.nested", 1410, 9400),
                 R("h_invalid", "asan", "c19.params.midcall", 940, 9400), R("h_invalid", "ndebug", "c19.params.midcall", 940, 9400),
                 R("h_invalid", "asan", "c19.nets.structure", 20000, 200000), R("h_invalid", "ndebug", "c19.nets.structure", 20000, 200000)],
    },
    "C20": {
        "level": "exploration",
        "rule": "(a) round trip: generated circuits in the text-representable domain (|values| < 10^5, all 8 orientations also on fixed "
                "cells, N/S/FN/FS rows, placed and unplaced, pins far outside the outline) written by the real Circuit::exportIspd and "
                "re-read by the real pycoloquinte/coloquinte.py Circuit.read_ispd (compiled module replaced by a pure-Python stand-in); "
                "sizes, fixed flags, x, y, orientation, connectivity, pin offsets, row geometry, row orientation compared field by field, "
                "plus reference wirelength of the re-read data vs Circuit::hpwl(); (b) binding table: the real pycoloquinte/module.cpp is "
                "compiled against a recording stand-in for pybind11, its PYBIND11_MODULE body is executed and each of the 147 observed "
                "registrations (27 enum values, 54 attributes, 18 properties, 38 methods, 10 classes) is compared by value with the C++ "
                "entity of the same name (python name = camelToSnake(C++ name)); exhaustive over the registrations; non-trivial = circuit "
                "has nets / a registration was checked; distinct = orientation sets, scale, sizes / binding identity",
        "assumptions": ["stand-ins replace pybind11 and the compiled module (pybind11 is not installed): the binding half validates the registration calls, not pybind11 itself",
                        "CPython 3 runs the real reader"],
        "trusted_base": ["harness/pybind_stub/pybind11/pybind11.h", "harness/py_stub/coloquinte_pybind.py", "tools/rt_check.py", "CPython"],
        "runs": [R("h_export", "asan", "c20.roundtrip", 4000, 40000), R("h_bind", "asan", "c20.bindings", 256, 256, exhaustive=True), R("h_bind", "asan", "c20.wrappers", 150, 1500)],
    },
    "C06": {
        "level": "exploration",
        "rule": "placeGlobal on generated circuits of the C06 domain (>= 1 movable cell of positive area, every row >= 4 row heights "
                "wide, fixed cells / obstructions anywhere, 1..60 cells, large magnitudes) x efforts, seeds, 4 net models, 6 rough "
                "legalization cost models, window sizes, 1-D transport on/off, export blending in [-0.5,1.5], 1..40 steps inside the "
                "numerically moderate box; monitors inside every callback: movable coordinates finite (not INT_MIN, |v| <= 2^30; "
                "-fsanitize=float-cast-overflow traps the conversion itself), at every UpperBound callback each movable cell centre "
                "within the rows' bounding box + 0.5 + 2 ulp; on return |final - ((1-w) L + w U)| <= 0.5(|1-w|+|w|) + 0.5 + ulps per "
                "coordinate with L/U the last LowerBound/UpperBound exports; any exception is a violation; non-trivial = returned "
                "after >= 2 UpperBound callbacks (or ran without callback); distinct = profile, features, net model, cost model, blend class, #UB",
        "assumptions": ["CG tolerance >= 1e-6, approximation / cutoff distances >= 0.1 (moderate box of the property)"],
        "runs": [R("h_global", "asan", "c06.global", 1600, 8000), R("h_global", "fast", "c06.global", 0, 40000)],
    },
    "C08": {
        "level": "exploration",
        "rule": "(a) pure function: each of placeGlobal / legalize / placeDetailed run 5 times on the same input (original, copy with an "
                "observing callback, immediately again, after an unrelated placement in the same process, heap copy): bitwise equal "
                "solution(); (b) schedules: through the COLOQUINTE_VERIF hook at the begin/end of NetModel::solveWithPenalty, every "
                "lower-bound step of a run is forced into a chosen completion order (hold the first / the second beginner until the "
                "other ended, alternate, 4 random masks, random microsecond delays) under all-core and single-core affinity; every "
                "result must equal the undisturbed run bitwise; the begin/end log proves which orders were seen (x_solve_finished_first, "
                "y_solve_finished_first must both be > 0, else the run is inconclusive); (c) the schedule workload again in the "
                "ThreadSanitizer build (halt_on_error): any report aborts the case; non-trivial = result differs from the input / both "
                "completion orders observed; distinct = stage/features/steps/order patterns",
        "assumptions": ["the lower model address is the x model (xtopo_ is declared before ytopo_ in GlobalPlacer): only used to label the observed orders",
                        "schedule coverage = completion orders of the two tasks (both forced), not every instruction interleaving; TSan covers the executions produced"],
        "require_counters": ["c08.sched.x_solve_finished_first", "c08.sched.y_solve_finished_first"],
        "runs": [R("h_global", "asan", "c08.pure", 600, 3000), R("h_global", "asan", "c08.sched", 160, 800),
                 R("h_global", "tsan", "c08.sched.light", 96, 600), R("h_global", "tsan", "c08.pure", 64, 300),
                 R("h_global", "fast", "c08.pure", 0, 10000), R("h_global", "fast", "c08.sched", 0, 1500),
                 R("h_global", "asan", "c08.history", 600, 3000), R("h_global", "fast", "c08.history", 0, 12000)],
    },
}

# Thorough-tier depth: multiply the thorough case counts of the non-exhaustive parts (the counts above were sized when
# every thorough run took well under a minute; these factors bring each property to several minutes on 16 cores).
_THOROUGH_FACTOR = {"C01": 5, "C02": 4, "C03": 10, "C04": 5, "C05": 3, "C06": 1, "C07": 1, "C08": 2, "C09": 5, "C10": 5,
                    "C11": 10, "C12": 5, "C13": 4, "C14": 4, "C15": 5, "C16": 2, "C17": 3, "C18": 5, "C19": 3, "C20": 4}
for _pid, _f in _THOROUGH_FACTOR.items():
    for _r in PLANS[_pid]["runs"]:
        if _r.get("exhaustive") or "custom" in _r:
            continue
        _q, _t = _r["cases"]
        _r["cases"] = (_q, _t * _f)
