# Per-property check plans: which harness parts run, in which build variant, with how many cases
# (quick, thorough).  Bounds are case counts, never seconds.


def R(bin_, variant, part, quick, thorough, **kw):
    d = {"bin": bin_, "variant": variant, "part": part, "cases": (quick, thorough)}
    d.update(kw)
    return d


def flow(prefix, profiles, variant, quick, thorough, **kw):
    return [R("h_flow", variant, "%s.%s" % (prefix, p), quick, thorough, **kw) for p in profiles]


C01_PROFILES = ["general", "rowhigh-any", "multirow", "turned", "polarity", "dense", "obstruction", "big"]

PLANS = {
    "C01": {
        "level": "exploration",
        "rule": "generated circuits of the C01 domain (profiles: general, row-high/no-polarity, multi-row heavy, turned, "
                "polarity heavy, dense 85-110%, obstruction heavy, large magnitude) x random efforts and legalization ordering "
                "parameters; a case is non-trivial when legalize returned and moved >= 1 cell or threw; distinct = distinct "
                "feature signatures {split rows, gaps, obstruction on a row, multi-row, turned, far start, #polarity kinds, "
                "utilisation bucket, size bucket, outcome, trivially-feasible}",
        "assumptions": ["legality oracle written from the property text (independent of library helpers)",
                        "g++ ASan/UBSan runtimes; library assert()s compiled in (asan, fast builds)"],
        "trusted_base": ["harness/circ.hpp legality oracle", "g++ 12 sanitizer runtimes"],
        "runs": flow("c01", C01_PROFILES, "asan", 750, 4000) + flow("c01", C01_PROFILES, "fast", 0, 25000),
    },
    "C02": {
        "level": "exploration",
        "rule": "API layer: placeDetailed with default and hostile parameter sets on generated C01-domain circuits, legality "
                "oracle inside every Detailed callback and on return; non-trivial = detailed placement returned and moved >= 1 "
                "cell; distinct = feature signature x outcome x callback count. Optimiser layer: random pass sequences on a "
                "DetailedPlacer. Data-structure layer: exhaustive BFS over swap/insert sequences on small DetailedPlacement instances",
        "assumptions": ["legality oracle independent of the library", "tall cells compared with the first callback state and the legalize-only copy"],
        "runs": flow("c02.api", C01_PROFILES, "asan", 250, 2500) + flow("c02.api", C01_PROFILES, "fast", 0, 10000),
    },
    "C03": {
        "level": "exploration",
        "rule": "frame snapshot (all Circuit fields) before / field-wise diff after legalize, placeDetailed, placeGlobal and "
                "compositions, with and without callbacks, including calls ending in an exception (callback throws at a random "
                "index, infeasible legalization, rejected parameters); non-trivial = circuit has fixed cells and the stage ran; "
                "distinct = feature signature x outcome x number of fixed cells",
        "assumptions": ["all Circuit data members are public and compared field by field"],
        "runs": flow("c03.flow", ["general", "manyfixed", "dense", "obstruction"], "asan", 300, 4000)
                + [R("h_flow", "asan", "c03.global", 400, 4000)]
                + flow("c03.flow", ["general", "manyfixed", "dense", "obstruction"], "fast", 0, 15000)
                + [R("h_flow", "fast", "c03.global", 0, 15000)],
    },
    "C04": {
        "level": "exploration",
        "rule": "polarity oracle (own row-orientation x polarity table) on the states exposed by legalize, by every Detailed "
                "callback and on return of placeDetailed; non-trivial = polarised movable cells present and the call returned; "
                "distinct = feature signature x outcome",
        "assumptions": ["rows at one y share one orientation (C01 domain)"],
        "runs": flow("c04", C01_PROFILES, "asan", 250, 2500) + flow("c04", ["polarity", "multirow", "general"], "fast", 0, 20000),
    },
    "C05": {
        "level": "exploration",
        "rule": "Circuit::hpwl() (cross-checked against the reference HPWL) recorded at every Detailed callback and on return; "
                "must be non-increasing and end <= legalize-only copy; non-trivial = wirelength strictly decreased at least once; "
                "distinct = feature signature x outcome x callback count",
        "assumptions": ["a rise is attributed to the known finding only if the frozen-orientation wirelength did not rise and a polarised cell with pins changed orientation"],
        "runs": flow("c05", ["general", "nets", "polarity", "dense", "multirow", "rowhigh-any"], "asan", 300, 3000)
                + flow("c05", ["general", "nets", "polarity", "dense", "multirow", "rowhigh-any"], "fast", 0, 12000),
    },
    "C07": {
        "level": "exploration",
        "rule": "placeGlobal / legalize / placeDetailed (random subset and order global->legalize->detailed) on generated, degenerate "
                "and large-magnitude circuits and fuzzed parameter sets; the oracle is the process: END marker reached, no sanitizer "
                "report, no assert, no non-std exception, CPU budget respected (re-run alone with 10x budget before a hang verdict); "
                "every case is non-trivial; distinct = profile x feature signature x stage mask",
        "assumptions": ["non-termination is decided as bounded progress: 120 s CPU then 1200 s CPU alone"],
        "runs": flow("c07", ["general", "degenerate", "big", "wide", "dense", "multirow", "obstruction", "paramfuzz"], "asan", 200, 3000)
                + flow("c07", ["general", "degenerate", "big", "wide", "dense", "multirow", "obstruction", "paramfuzz"], "ndebug", 200, 3000),
    },
    "C10": {
        "level": "fault_enumeration",
        "rule": "per instance x stage: count callbacks K, then re-run with the callback throwing at every index 1..K (std and "
                "non-std exception types); inside every callback all 7 structural setters must be refused and change nothing; "
                "after every ended call all setters must be accepted on a copy and a further placement call must end normally; "
                "non-trivial = K > 0; distinct = stage x K x outcome",
        "assumptions": ["fault points are the callback invocations (the only user code run inside a placement call) plus infeasible legalization and rejected parameters"],
        "runs": [R("h_flow", "asan", "c10.enum", 160, 3000), R("h_flow", "fast", "c10.enum", 0, 6000)],
    },
    "C11": {
        "level": "exploration",
        "rule": "legal single-row placements from (i) legalize of random row-high circuits and (ii) direct packing into free segments, "
                "legalized again: no x/y may change; non-trivial = >= 2 movable cells re-legalized; distinct = feature signature x "
                "orderingWidth region (inside/outside [0,1]) x source",
        "assumptions": ["|v| < 2^20 so that the float ordering key is exact"],
        "runs": flow("c11.relegalize", ["general", "rowhigh", "obstruction", "polarity", "dense"], "asan", 400, 6000)
                + [R("h_flow", "asan", "c11.constructed", 1500, 20000)]
                + flow("c11.relegalize", ["general", "rowhigh", "obstruction", "polarity", "dense"], "fast", 0, 20000)
                + [R("h_flow", "fast", "c11.constructed", 0, 60000)],
    },
}
