#include "gen.hpp"
#include <cstdlib>
#include <cmath>
// independent available area: free segments minus margins
static long long availArea(const Circuit&c,double margin){ long long a=0; for(auto&r:c.rows_){ for(auto s:freeSegments(c,r)){ long long h=r.height(); long long w=s.hi-s.lo; w = (long long)(w - 2*margin*h); /* code: w -= 2*margin*h with double->ll */ if(w>0)a+=w*h; } } return a; }
int main(int argc,char**argv){
  uint64_t seed0=atoll(argv[1]); int n=atoi(argv[2]);
  std::map<std::string,int> st; std::map<std::string,std::string> wit;
  auto note=[&](const std::string&k,uint64_t seed,const std::string&m){ if(!st[k]++) wit[k]="seed "+std::to_string(seed)+" "+m; };
  for(int it=0;it<n;++it){
    uint64_t seed=seed0*1000003ull+it; Rng rng(seed);
    GenOpts o; o.turned=false; o.utilLo=0.05; o.utilHi=0.6; Circuit c0=genCircuit(rng,o);
    // all cells N to keep areas simple
    double target=0.05+0.9*rng.unif(); double margin=rng.chance(0.5)?0.0:rng.unif()*2; double cap=rng.chance(0.5)?1.0:(0.05+rng.unif());
    Circuit c=c0;
    try{ c.expandCellsToDensity(target,margin,cap);}catch(const std::exception&e){ note("throw",seed,e.what()); continue; }
    st["runs"]++;
    int maxRowW=0; for(auto&r:c.rows_) maxRowW=std::max(maxRowW,r.width()); double capW=maxRowW*cap;
    long long area0=0,area1=0; bool capped=false; int maxH=0;
    for(int i=0;i<c.nbCells();++i){
      if(c.cellHeight_[i]!=c0.cellHeight_[i]) note("height_changed",seed,"");
      if(c.cellIsFixed_[i]){ if(c.cellWidth_[i]!=c0.cellWidth_[i]) note("fixed_changed",seed,""); continue; }
      area0+=c0.area(i); area1+=c.area(i); maxH=std::max(maxH,c.cellHeight_[i]);
      if(c.cellWidth_[i]<c0.cellWidth_[i] && capW>=c0.cellWidth_[i]) note("narrower",seed,"cell "+std::to_string(i)+" "+std::to_string(c0.cellWidth_[i])+"->"+std::to_string(c.cellWidth_[i]));
      if(c.cellWidth_[i]>=(int)capW) capped=true;
    }
    long long avail=availArea(c0,margin);
    if(avail>0 && area0>0){
      double d0=(double)area0/avail, d1=(double)area1/avail;
      if(d0<target){ if(area1>target*avail+maxH+1e-6*avail) note("over_target",seed,"d1="+std::to_string(d1)+" target="+std::to_string(target)+" excess="+std::to_string(area1-target*avail)+" maxH="+std::to_string(maxH));
        if(!capped && std::abs(area1-target*avail)>maxH+1) note("not_reached",seed,"area1="+std::to_string(area1)+" want="+std::to_string(target*avail)+" maxH="+std::to_string(maxH)); }
      else if(area1!=area0) note("changed_when_dense",seed,"");
    }
    // by factor
    Circuit f=c0; std::vector<float> fac(c0.nbCells()); for(auto&x:fac) x=rng.chance(0.4)?1.0f:(1.0f+(float)rng.unif()*2);
    double maxD=rng.chance(0.3)?1.0:(0.1+0.9*rng.unif());
    try{ f.expandCellsByFactor(fac,maxD,margin);}catch(const std::exception&e){ note("throwF",seed,e.what()); continue; }
    long long a1=0; for(int i=0;i<f.nbCells();++i){ if(f.cellIsFixed_[i]){ if(f.cellWidth_[i]!=c0.cellWidth_[i]) note("F_fixed_changed",seed,""); continue;} a1+=f.area(i); if(f.cellWidth_[i]<c0.cellWidth_[i]) note("F_narrower",seed,"cell "+std::to_string(i)+" "+std::to_string(c0.cellWidth_[i])+"->"+std::to_string(f.cellWidth_[i])+" fac "+std::to_string(fac[i])); if(f.cellWidth_[i]>std::floor(c0.cellWidth_[i]*(double)fac[i]+1e-3)) note("F_wider_than_factor",seed,""); }
    if(avail>0&&area0>0){ double d0=(double)area0/avail; if(d0<maxD && a1>maxD*avail*(1+1e-6)+1) note("F_over_cap",seed,"a1="+std::to_string(a1)+" cap="+std::to_string(maxD*avail)); }
  }
  for(auto&p:st) printf("%-30s %d\n",p.first.c_str(),p.second); for(auto&p:wit) printf("-- %s: %s\n",p.first.c_str(),p.second.c_str());
}
