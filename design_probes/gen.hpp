// Scratch probing harness: circuit generator + independent legality oracle
#pragma once
#include <algorithm>
#include <cstdint>
#include <cstdio>
#include <iostream>
#include <map>
#include <set>
#include <sstream>
#include <string>
#include <vector>

#include "coloquinte.hpp"

using namespace coloquinte;

struct Rng {
  uint64_t s;
  explicit Rng(uint64_t seed) : s(seed * 0x9E3779B97F4A7C15ull + 0x1234567ull) {}
  uint64_t next() {
    uint64_t z = (s += 0x9E3779B97F4A7C15ull);
    z = (z ^ (z >> 30)) * 0xBF58476D1CE4E5B9ull;
    z = (z ^ (z >> 27)) * 0x94D049BB133111EBull;
    return z ^ (z >> 31);
  }
  int range(int lo, int hi) {  // inclusive
    if (hi <= lo) return lo;
    return lo + (int)(next() % (uint64_t)(hi - lo + 1));
  }
  bool chance(double p) { return (next() >> 11) * (1.0 / 9007199254740992.0) < p; }
  double unif() { return (next() >> 11) * (1.0 / 9007199254740992.0); }
  template <class T>
  const T &pick(const std::vector<T> &v) { return v[range(0, (int)v.size() - 1)]; }
};

struct GenOpts {
  int maxRows = 6;
  int maxCells = 12;
  int maxFixed = 3;
  int maxNets = 10;
  bool multiRow = true;
  bool polarity = true;
  bool turned = true;      // allow E/W/FE/FW for cells without polarity
  bool splitRows = true;   // several segments per y
  bool gaps = true;        // vertical gaps between rows
  double utilLo = 0.2, utilHi = 0.9;
  int scale = 1;           // coordinate multiplier
  bool farInit = true;
};

inline std::string circuitToString(const Circuit &c) {
  std::ostringstream ss;
  ss << "cells " << c.nbCells() << "\n";
  for (int i = 0; i < c.nbCells(); ++i) {
    ss << "  c" << i << " w=" << c.cellWidth_[i] << " h=" << c.cellHeight_[i]
       << " fixed=" << c.cellIsFixed_[i] << " obs=" << c.cellIsObstruction_[i]
       << " pol=" << toString(c.cellRowPolarity_[i]) << " x=" << c.cellX_[i]
       << " y=" << c.cellY_[i] << " o=" << toString(c.cellOrientation_[i]) << "\n";
  }
  ss << "rows " << c.nbRows() << "\n";
  for (auto &r : c.rows_)
    ss << "  row " << r.minX << ".." << r.maxX << " x " << r.minY << ".." << r.maxY
       << " " << toString(r.orientation) << "\n";
  ss << "nets " << c.nbNets() << "\n";
  for (int n = 0; n < c.nbNets(); ++n) {
    ss << "  n" << n << " w=" << c.netWeights_[n] << ":";
    for (int p = c.netLimits_[n]; p < c.netLimits_[n + 1]; ++p)
      ss << " (c" << c.pinCells_[p] << "," << c.pinXOffsets_[p] << "," << c.pinYOffsets_[p] << ")";
    ss << "\n";
  }
  return ss.str();
}

inline bool turnedO(CellOrientation o) {
  return o == CellOrientation::E || o == CellOrientation::W || o == CellOrientation::FE ||
         o == CellOrientation::FW;
}

// Generate a circuit in the C01 domain
inline Circuit genCircuit(Rng &rng, const GenOpts &o) {
  int H = rng.pick(std::vector<int>{1, 2, 3, 4, 5, 8, 10, 12}) * o.scale;
  int nRowsY = rng.range(1, o.maxRows);
  int W = rng.range(6, 60) * o.scale;
  int x0 = rng.range(-20, 20) * o.scale;
  int y0 = rng.range(-20, 20) * o.scale;
  std::vector<Row> rows;
  int y = y0;
  int orientPattern = rng.range(0, 3);
  static const CellOrientation rowO[4] = {CellOrientation::N, CellOrientation::FS,
                                          CellOrientation::S, CellOrientation::FN};
  for (int r = 0; r < nRowsY; ++r) {
    CellOrientation ro;
    if (orientPattern == 0) ro = (r % 2 == 0) ? CellOrientation::N : CellOrientation::FS;
    else if (orientPattern == 1) ro = CellOrientation::N;
    else if (orientPattern == 2) ro = (r % 2 == 0) ? CellOrientation::FS : CellOrientation::N;
    else ro = rowO[rng.range(0, 3)];
    if (o.splitRows && rng.chance(0.25) && W >= 8 * o.scale) {
      int cut1 = rng.range(2, W / o.scale - 4) * o.scale;
      int cut2 = std::min(W, cut1 + rng.range(0, 3) * o.scale);
      rows.emplace_back(x0, x0 + cut1, y, y + H, ro);
      if (cut2 < W) rows.emplace_back(x0 + cut2, x0 + W, y, y + H, ro);
    } else {
      int dx0 = rng.chance(0.2) ? rng.range(0, 3) * o.scale : 0;
      int dx1 = rng.chance(0.2) ? rng.range(0, 3) * o.scale : 0;
      rows.emplace_back(x0 + dx0, x0 + W - dx1, y, y + H, ro);
    }
    y += H;
    if (o.gaps && rng.chance(0.15)) y += rng.range(1, 2) * H;
  }
  long long rowArea = 0;
  for (auto &r : rows) rowArea += (long long)r.width() * r.height();
  int nFixed = rng.range(0, o.maxFixed);
  int nMov = rng.range(1, o.maxCells);
  double util = o.utilLo + (o.utilHi - o.utilLo) * rng.unif();
  std::vector<int> w, h, fx, obs, cx, cy;
  std::vector<CellRowPolarity> pol;
  std::vector<CellOrientation> ori;
  long long used = 0;
  int yTop = y;
  // fixed cells first or interleaved
  int total = nFixed + nMov;
  std::vector<int> isF(total, 0);
  for (int i = 0; i < nFixed; ++i) isF[i] = 1;
  for (int i = total - 1; i > 0; --i) std::swap(isF[i], isF[rng.range(0, i)]);
  for (int i = 0; i < total; ++i) {
    if (isF[i]) {
      int fw = rng.chance(0.15) ? 0 : rng.range(1, std::max(1, W / o.scale / 3)) * o.scale;
      int fh = rng.chance(0.15) ? 0 : rng.range(1, 3 * H / o.scale) * o.scale;
      if (rng.chance(0.3)) fh = H * rng.range(1, 2);
      w.push_back(fw);
      h.push_back(fh);
      fx.push_back(1);
      obs.push_back(rng.chance(0.75));
      cx.push_back(x0 + rng.range(-5, W / o.scale + 2) * o.scale);
      cy.push_back(y0 + rng.range(-3 * H / o.scale, (yTop - y0) / o.scale + 2) * o.scale);
      pol.push_back(CellRowPolarity::ANY);
      static const CellOrientation all8[8] = {CellOrientation::N, CellOrientation::S, CellOrientation::W,
                                              CellOrientation::E, CellOrientation::FN, CellOrientation::FS,
                                              CellOrientation::FW, CellOrientation::FE};
      ori.push_back(all8[rng.range(0, 7)]);
      if (obs.back()) {
        // rough estimate of blocked area
      }
    } else {
      int nr = 1;
      if (o.multiRow && rng.chance(0.2)) nr = rng.range(2, std::min(4, std::max(2, nRowsY)));
      int cw = rng.range(1, std::max(1, W / o.scale / 4)) * o.scale;
      if (rng.chance(0.1)) cw = rng.range(1, std::max(1, W / o.scale / 2)) * o.scale;
      int ch = nr * H;
      long long a = (long long)cw * ch;
      if (used + a > util * rowArea && used > 0) {
        // shrink to a minimal cell
        cw = o.scale;
        ch = H;
        a = (long long)cw * ch;
      }
      used += a;
      CellRowPolarity p = CellRowPolarity::ANY;
      if (o.polarity && rng.chance(0.5)) {
        static const CellRowPolarity pp[4] = {CellRowPolarity::SAME, CellRowPolarity::OPPOSITE,
                                              CellRowPolarity::NW, CellRowPolarity::SE};
        p = pp[rng.range(0, 3)];
      }
      CellOrientation oo;
      int sw = cw, sh = ch;  // stored (unrotated) size
      if (p == CellRowPolarity::ANY) {
        static const CellOrientation all8[8] = {CellOrientation::N, CellOrientation::S, CellOrientation::W,
                                                CellOrientation::E, CellOrientation::FN, CellOrientation::FS,
                                                CellOrientation::FW, CellOrientation::FE};
        oo = all8[rng.range(0, o.turned ? 7 : 1)];
        if (!o.turned) oo = rng.chance(0.5) ? CellOrientation::N : (rng.chance(0.5) ? CellOrientation::FS : CellOrientation::FN);
        if (turnedO(oo)) std::swap(sw, sh);
      } else {
        static const CellOrientation un[4] = {CellOrientation::N, CellOrientation::S, CellOrientation::FN,
                                              CellOrientation::FS};
        oo = un[rng.range(0, 3)];
      }
      w.push_back(sw);
      h.push_back(sh);
      fx.push_back(0);
      obs.push_back(rng.chance(0.8));
      if (o.farInit && rng.chance(0.1)) {
        cx.push_back(x0 + rng.range(-200, 200) * o.scale);
        cy.push_back(y0 + rng.range(-200, 200) * o.scale);
      } else {
        cx.push_back(x0 + rng.range(-3, W / o.scale + 3) * o.scale + rng.range(0, o.scale - 1));
        cy.push_back(y0 + rng.range(-H / o.scale, (yTop - y0) / o.scale + H / o.scale) * o.scale + rng.range(0, o.scale - 1));
      }
      pol.push_back(p);
      ori.push_back(oo);
    }
  }
  Circuit c(total);
  c.setCellWidth(w);
  c.setCellHeight(h);
  std::vector<bool> bf(fx.begin(), fx.end()), bo(obs.begin(), obs.end());
  c.setCellIsFixed(bf);
  c.setCellIsObstruction(bo);
  c.setCellX(cx);
  c.setCellY(cy);
  c.setCellRowPolarity(pol);
  c.setCellOrientation(ori);
  c.setRows(rows);
  int nNets = rng.range(0, o.maxNets);
  for (int n = 0; n < nNets; ++n) {
    int deg = rng.chance(0.1) ? 1 : rng.range(2, std::min(6, std::max(2, total + 1)));
    std::vector<int> cells, xo, yo;
    for (int k = 0; k < deg; ++k) {
      int cc = rng.range(0, total - 1);
      cells.push_back(cc);
      if (rng.chance(0.1)) {
        xo.push_back(rng.range(-5, 25) * o.scale);
        yo.push_back(rng.range(-5, 25) * o.scale);
      } else {
        xo.push_back(rng.range(0, std::max(0, w[cc])));
        yo.push_back(rng.range(0, std::max(0, h[cc])));
      }
    }
    float wt = rng.chance(0.7) ? 1.0f : (float)rng.pick(std::vector<double>{0.25, 0.5, 1.5, 2.0, 2.5, 3.0});
    c.addNet(cells, xo, yo, wt);
  }
  c.check();
  return c;
}

// ---------------- independent legality oracle -----------------
struct Seg { int lo, hi; };

inline std::vector<Seg> freeSegments(const Circuit &c, const Row &row) {
  std::vector<Seg> blocked;
  for (int i = 0; i < c.nbCells(); ++i) {
    if (!c.cellIsFixed_[i] || !c.cellIsObstruction_[i]) continue;
    bool t = turnedO(c.cellOrientation_[i]);
    int pw = t ? c.cellHeight_[i] : c.cellWidth_[i];
    int ph = t ? c.cellWidth_[i] : c.cellHeight_[i];
    int ax = c.cellX_[i], bx = ax + pw, ay = c.cellY_[i], by = ay + ph;
    if (pw <= 0 || ph <= 0) continue;
    if (ax < row.maxX && row.minX < bx && ay < row.maxY && row.minY < by)
      blocked.push_back({std::max(ax, row.minX), std::min(bx, row.maxX)});
  }
  std::sort(blocked.begin(), blocked.end(), [](Seg a, Seg b) { return a.lo < b.lo; });
  std::vector<Seg> ret;
  int cur = row.minX;
  for (auto s : blocked) {
    if (s.lo > cur) ret.push_back({cur, s.lo});
    cur = std::max(cur, s.hi);
  }
  if (cur < row.maxX) ret.push_back({cur, row.maxX});
  return ret;
}

// returns "" if legal, otherwise a description
inline std::string checkLegal(const Circuit &c) {
  if (c.nbRows() == 0) return "no rows";
  int H = c.rows_[0].height();
  std::map<int, std::vector<Seg>> freeAtY;
  for (auto &r : c.rows_) {
    auto f = freeSegments(c, r);
    auto &v = freeAtY[r.minY];
    v.insert(v.end(), f.begin(), f.end());
  }
  std::ostringstream err;
  struct R { int ax, bx, ay, by, id; };
  std::vector<R> rects;
  for (int i = 0; i < c.nbCells(); ++i) {
    if (c.cellIsFixed_[i]) continue;
    CellOrientation o = c.cellOrientation_[i];
    if ((int)o < 0 || (int)o > 7) { err << "cell " << i << " has orientation " << (int)o; return err.str(); }
    bool t = turnedO(o);
    int pw = t ? c.cellHeight_[i] : c.cellWidth_[i];
    int ph = t ? c.cellWidth_[i] : c.cellHeight_[i];
    int x = c.cellX_[i], y = c.cellY_[i];
    if (ph % H != 0 || ph <= 0) { err << "cell " << i << " placed height " << ph << " not multiple of " << H; return err.str(); }
    for (int k = 0; k < ph / H; ++k) {
      auto it = freeAtY.find(y + k * H);
      if (it == freeAtY.end()) { err << "cell " << i << " strip " << k << " at y=" << y + k * H << " not on a row"; return err.str(); }
      bool ok = false;
      for (auto s : it->second) if (s.lo <= x && x + pw <= s.hi) ok = true;
      if (!ok) { err << "cell " << i << " strip " << k << " x=" << x << ".." << x + pw << " y=" << y + k * H << " not inside a free segment"; return err.str(); }
    }
    rects.push_back({x, x + pw, y, y + ph, i});
  }
  for (size_t a = 0; a < rects.size(); ++a)
    for (size_t b = a + 1; b < rects.size(); ++b) {
      auto &p = rects[a]; auto &q = rects[b];
      if (p.ax < q.bx && q.ax < p.bx && p.ay < q.by && q.ay < p.by) {
        err << "cells " << p.id << " and " << q.id << " overlap";
        return err.str();
      }
    }
  return "";
}

// polarity check (C04). initial orientations given for ANY cells
inline std::string checkPolarity(const Circuit &c, const std::vector<CellOrientation> &initO) {
  std::ostringstream err;
  for (int i = 0; i < c.nbCells(); ++i) {
    if (c.cellIsFixed_[i]) continue;
    CellRowPolarity p = c.cellRowPolarity_[i];
    CellOrientation o = c.cellOrientation_[i];
    if (p == CellRowPolarity::ANY) {
      if (o != initO[i]) { err << "cell " << i << " ANY changed orientation " << toString(initO[i]) << "->" << toString(o); return err.str(); }
      continue;
    }
    // find row orientation at y
    CellOrientation ro = CellOrientation::UNKNOWN;
    for (auto &r : c.rows_) if (r.minY == c.cellY_[i] && r.minX <= c.cellX_[i] && c.cellX_[i] < r.maxX) ro = r.orientation;
    if (ro == CellOrientation::UNKNOWN) { err << "cell " << i << " not on a row"; return err.str(); }
    CellOrientation exp;
    auto opp = [](CellOrientation r) {
      switch (r) { case CellOrientation::N: return CellOrientation::FS; case CellOrientation::FS: return CellOrientation::N;
        case CellOrientation::S: return CellOrientation::FN; case CellOrientation::FN: return CellOrientation::S; default: return CellOrientation::INVALID; }
    };
    if (p == CellRowPolarity::SAME) exp = ro;
    else if (p == CellRowPolarity::OPPOSITE) exp = opp(ro);
    else if (p == CellRowPolarity::NW) exp = (ro == CellOrientation::N || ro == CellOrientation::FN) ? ro : CellOrientation::INVALID;
    else exp = (ro == CellOrientation::S || ro == CellOrientation::FS) ? ro : CellOrientation::INVALID;
    if (exp == CellOrientation::INVALID) { err << "cell " << i << " pol " << toString(p) << " on forbidden row " << toString(ro) << " (orient " << toString(o) << ")"; return err.str(); }
    if (o != exp) { err << "cell " << i << " pol " << toString(p) << " row " << toString(ro) << " has orient " << toString(o) << " expected " << toString(exp); return err.str(); }
  }
  return "";
}

// reference HPWL with explicit orientation transform
inline long long refHpwl(const Circuit &c) {
  long long tot = 0;
  for (int n = 0; n < c.nbNets(); ++n) {
    long long mnx = 1LL << 60, mxx = -(1LL << 60), mny = 1LL << 60, mxy = -(1LL << 60);
    if (c.netLimits_[n] == c.netLimits_[n + 1]) continue;
    for (int p = c.netLimits_[n]; p < c.netLimits_[n + 1]; ++p) {
      int cell = c.pinCells_[p];
      long long w = c.cellWidth_[cell], h = c.cellHeight_[cell];
      long long ox = c.pinXOffsets_[p], oy = c.pinYOffsets_[p];
      long long px, py;
      switch (c.cellOrientation_[cell]) {
        case CellOrientation::N: px = ox; py = oy; break;
        case CellOrientation::S: px = w - ox; py = h - oy; break;
        case CellOrientation::W: px = h - oy; py = ox; break;      // rotate 90 ccw
        case CellOrientation::E: px = oy; py = w - ox; break;      // rotate 270 ccw
        case CellOrientation::FN: px = w - ox; py = oy; break;     // mirror about y axis
        case CellOrientation::FS: px = ox; py = h - oy; break;     // mirror about x axis
        case CellOrientation::FW: px = oy; py = ox; break;         // FN then W
        case CellOrientation::FE: px = h - oy; py = w - ox; break; // FN then E
        default: px = ox; py = oy;
      }
      px += c.cellX_[cell]; py += c.cellY_[cell];
      mnx = std::min(mnx, px); mxx = std::max(mxx, px); mny = std::min(mny, py); mxy = std::max(mxy, py);
    }
    tot += (mxx - mnx) + (mxy - mny);
  }
  return tot;
}

struct Quiet {
  std::streambuf *old;
  std::ostringstream sink;
  Quiet() { old = std::cout.rdbuf(sink.rdbuf()); }
  ~Quiet() { std::cout.rdbuf(old); }
};
