#!/bin/bash
# usage: mk.sh prog variant
set -e
P=$1; V=${2:-asan}
case $V in
  asan) FL="-O1 -g -fno-omit-frame-pointer -fsanitize=address,undefined -fno-sanitize-recover=all";;
  plain) FL="-O2 -g";;
  ndebug) FL="-O2 -g -DNDEBUG";;
  tsan) FL="-O1 -g -fsanitize=thread";;
  asanf) FL="-O1 -g -fno-omit-frame-pointer -fsanitize=address,undefined,float-cast-overflow -fno-sanitize-recover=all";;
esac
g++ -std=gnu++17 -DCOLOQUINTE_VERIF $FL -I/tmp/probe/src -I/tmp/probe/src/place_global -I/tmp/probe/src/place_detailed $P.cpp libcol_$V.a -llemon -lpthread -o ${P}_$V
