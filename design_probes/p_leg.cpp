// Probe C01/C02/C04/C05/C03/C11 on random circuits
#include "gen.hpp"
#include <cstdlib>

int main(int argc, char **argv) {
  uint64_t seed0 = argc > 1 ? atoll(argv[1]) : 1;
  int n = argc > 2 ? atoi(argv[2]) : 1000;
  int mode = argc > 3 ? atoi(argv[3]) : 0;  // bit0: no turned, bit1: no polarity, bit2: no multirow
  std::map<std::string, int> stats;
  std::map<std::string, std::string> firstWitness;
  auto note = [&](const std::string &k, uint64_t seed, const std::string &msg, const Circuit &c0) {
    if (!stats[k]++) firstWitness[k] = "seed " + std::to_string(seed) + ": " + msg + "\n" + circuitToString(c0);
  };
  for (int it = 0; it < n; ++it) {
    uint64_t seed = seed0 * 1000003ull + it;
    Rng rng(seed);
    GenOpts o;
    o.turned = !(mode & 1);
    o.polarity = !(mode & 2);
    o.multiRow = !(mode & 4);
    if (rng.chance(0.3)) { o.utilLo = 0.8; o.utilHi = 1.1; }
    Circuit c0 = genCircuit(rng, o);
    int effort = rng.range(1, 9);
    ColoquinteParameters params(effort, 7);
    params.legalization.orderingWidth = -1.0 + 3.0 * rng.unif();
    if (mode & 8) params.legalization.orderingWidth = rng.unif();
    if (mode & 16) params.legalization.orderingY = 0.0;
    params.legalization.orderingY = -0.2 + 0.4 * rng.unif();
    params.legalization.orderingHeight = rng.chance(0.5) ? -1.0 : (-2.0 + 4.0 * rng.unif());
    if (rng.chance(0.5)) {
      params.detailed.reorderingNbRows = rng.range(1, 3);
      params.detailed.reorderingMaxNbCells = rng.range(0, 5);
      params.detailed.shiftNbRows = rng.range(1, 6);
      params.detailed.shiftMaxNbCells = rng.range(0, 30);
      params.detailed.nbPasses = rng.range(0, 3);
      params.detailed.localSearchNbNeighbours = rng.range(0, 8);
      params.detailed.localSearchNbRows = rng.range(0, 4);
    }
    std::vector<CellOrientation> initO = c0.cellOrientation_;
    Circuit c = c0;
    bool legOk = false;
    {
      Quiet q;
      try {
        c.legalize(params);
        legOk = true;
      } catch (const std::exception &e) {
        stats["leg_throw"]++;
        if (c.cellX_ != c0.cellX_ || c.cellY_ != c0.cellY_ || c.cellOrientation_ != c0.cellOrientation_)
          note("C10_leg_throw_modified", seed, e.what(), c0);
      }
    }
    if (!legOk) continue;
    stats["leg_ok"]++;
    std::string e1 = checkLegal(c);
    if (!e1.empty()) { note("C01_illegal", seed, e1, c0); continue; }
    std::string e4 = checkPolarity(c, initO);
    if (!e4.empty()) note("C04_leg", seed, e4, c0);
    if (c.hpwl() != refHpwl(c)) note("C09_hpwl", seed, "hpwl mismatch", c0);
    // C11: relegalize
    bool allSingle = true;
    int H = c.rows_[0].height();
    for (int i = 0; i < c.nbCells(); ++i) if (!c.cellIsFixed_[i] && c.placedHeight(i) != H) allSingle = false;
    if (allSingle) {
      Circuit c2 = c;
      Quiet q;
      try {
        c2.legalize(params);
        if (c2.cellX_ != c.cellX_ || c2.cellY_ != c.cellY_) note("C11_moved", seed, "relegalize moved", c0);
        else stats["C11_ok"]++;
      } catch (const std::exception &e) { note("C11_throw", seed, e.what(), c0); }
    }
    // Detailed placement from c0 with callback
    Circuit d = c0;
    long long hLeg = c.hpwl();
    long long last = -1, lastF = -1; std::string frozenErr;
    int ncb = 0;
    std::string cbErr;
    std::vector<int> macroX, macroY;
    PlacementCallback cb = [&](PlacementStep) {
      ++ncb;
      if (ncb == 1) {
        // first callback = after legalization
        if (d.cellX_ != c.cellX_ || d.cellY_ != c.cellY_) cbErr = "first callback differs from legalize()";
      }
      std::string e = checkLegal(d);
      if (!e.empty() && cbErr.empty()) cbErr = "cb" + std::to_string(ncb) + " illegal: " + e;
      std::string e4 = checkPolarity(d, initO);
      if (!e4.empty() && cbErr.empty()) cbErr = "C04 cb" + std::to_string(ncb) + ": " + e4;
      long long hp = d.hpwl();
      {
        Circuit f = d; f.cellOrientation_ = c.cellOrientation_;
        // frozen only valid for unturned changes
        long long fh = f.hpwl();
        if (lastF >= 0 && fh > lastF) frozenErr = "frozen hpwl increased";
        lastF = fh;
      }
      if (last >= 0 && hp > last && cbErr.empty()) cbErr = "C05 hpwl increased at cb " + std::to_string(ncb) + " " + std::to_string(last) + "->" + std::to_string(hp);
      last = hp;
      for (int i = 0; i < d.nbCells(); ++i)
        if (!d.cellIsFixed_[i] && d.placedHeight(i) != H && (d.cellX_[i] != c.cellX_[i] || d.cellY_[i] != c.cellY_[i]) && cbErr.empty())
          cbErr = "macro moved";
    };
    {
      Quiet q;
      try {
        d.placeDetailed(params, cb);
        stats["det_ok"]++;
      } catch (const std::exception &e) {
        note(std::string("C02_det_throw:") + e.what(), seed, e.what(), c0);
        continue;
      }
    }
    if (!frozenErr.empty()) note("C05_frozen", seed, frozenErr, c0);
    { Circuit f = d; f.cellOrientation_ = c.cellOrientation_; if (lastF >= 0 && f.hpwl() > lastF) note("C05_frozen_final", seed, "x", c0); }
    if (!cbErr.empty()) {
      std::string k = cbErr.substr(0, 3) == "C05" ? "C05_cb" : (cbErr.substr(0, 3) == "C04" ? "C04_cb" : "C02_cb");
      note(k, seed, cbErr, c0);
    }
    std::string e2 = checkLegal(d);
    if (!e2.empty()) note("C02_final_illegal", seed, e2, c0);
    std::string e5 = checkPolarity(d, initO);
    if (!e5.empty()) note("C04_final", seed, e5, c0);
    if (d.hpwl() > hLeg) note("C05_final", seed, "hpwl " + std::to_string(hLeg) + "->" + std::to_string(d.hpwl()), c0);
    if (last >= 0 && d.hpwl() > last) note("C05_final_vs_lastcb", seed, "x", c0);
    // C03 frame
    if (d.cellWidth_ != c0.cellWidth_ || d.cellHeight_ != c0.cellHeight_ || d.cellIsFixed_ != c0.cellIsFixed_ ||
        d.pinCells_ != c0.pinCells_ || d.pinXOffsets_ != c0.pinXOffsets_)
      note("C03", seed, "frame", c0);
    for (int i = 0; i < d.nbCells(); ++i)
      if (d.cellIsFixed_[i] && (d.cellX_[i] != c0.cellX_[i] || d.cellY_[i] != c0.cellY_[i] || d.cellOrientation_[i] != c0.cellOrientation_[i]))
        note("C03_fixed_moved", seed, "fixed", c0);
    // no-callback run equals callback run (C08)
    Circuit d2 = c0;
    {
      Quiet q;
      try { d2.placeDetailed(params); } catch (...) { note("C08_throw", seed, "x", c0); }
    }
    if (d2.cellX_ != d.cellX_ || d2.cellY_ != d.cellY_ || d2.cellOrientation_ != d.cellOrientation_) note("C08_cb_differs", seed, "x", c0);
  }
  for (auto &p : stats) printf("%-40s %d\n", p.first.c_str(), p.second);
  for (auto &p : firstWitness) printf("---- %s\n%s\n", p.first.c_str(), p.second.c_str());
  return 0;
}
