// C17 (b)(c): least squares oracle and non-dyadic scaling tolerance on NetModel directly
#include "gen.hpp"
#include "place_global/net_model.hpp"
#include <cmath>
#include <cstdlib>
// dense solve in double
static bool gauss(std::vector<std::vector<double>>&A,std::vector<double>&b,std::vector<double>&x){ int n=b.size(); for(int i=0;i<n;++i){ int p=i; for(int r=i+1;r<n;++r) if(std::fabs(A[r][i])>std::fabs(A[p][i]))p=r; if(std::fabs(A[p][i])<1e-12) return false; std::swap(A[p],A[i]); std::swap(b[p],b[i]); for(int r=i+1;r<n;++r){ double f=A[r][i]/A[i][i]; if(f==0)continue; for(int c=i;c<n;++c)A[r][c]-=f*A[i][c]; b[r]-=f*b[i]; } } x.assign(n,0); for(int i=n-1;i>=0;--i){ double s=b[i]; for(int c=i+1;c<n;++c)s-=A[i][c]*x[c]; x[i]=s/A[i][i]; } return true; }
int main(int argc,char**argv){
  uint64_t seed0=atoll(argv[1]); int n=atoi(argv[2]);
  double worstStar=0, worstScale=0; int ok=0,skip=0; int badStar=0,badScale=0; std::string wit;
  for(int it=0;it<n;++it){ uint64_t seed=seed0*1000003ull+it; Rng rng(seed);
    int nc=rng.range(1,12); NetModel m(nc); int nn=rng.range(1,15);
    struct Net{std::vector<int> c; std::vector<float> o; float w; bool hasFix; float mn,mx;}; std::vector<Net> nets;
    double span=1;
    for(int k=0;k<nn;++k){ Net t; int d=rng.range(1,5); for(int j=0;j<d;++j){ t.c.push_back(rng.range(0,nc-1)); t.o.push_back((float)rng.range(-10,10)); }
      t.w=(float)rng.pick(std::vector<double>{0.25,0.5,1,1.5,2,2.5,3}); t.hasFix=rng.chance(0.6); t.mn=(float)rng.range(-200,200); t.mx=t.mn+(rng.chance(0.3)?0:(float)rng.range(0,300)); span=std::max(span,(double)std::max(std::fabs(t.mn),std::fabs(t.mx)));
      if(t.hasFix) m.addNet(t.c,t.o,t.mn,t.mx,t.w); else m.addNet(t.c,t.o,t.w); nets.push_back(t); }
    NetModel::Parameters P; P.tolerance=1e-8; P.maxNbIterations=5000;
    std::vector<float> sol=m.solveStar(P);
    // oracle: star model. Build unknowns: cells + one star node per net with >2 pins (incl. fixed pseudo-pins)
    // replicate the *documented* model: net of nb pins (after adding fixed pseudo pins, dropping nets with <=1 pin): nb<=2 -> bipoint weight w ; else star with weight w/nb to a free node
    std::vector<std::vector<int>> pc; std::vector<std::vector<double>> po; std::vector<double> pw;
    for(auto&t:nets){ std::vector<int> c=t.c; std::vector<double> o(t.o.begin(),t.o.end()); if(c.empty())continue; if(t.hasFix){ c.push_back(-1);o.push_back(t.mn); if(t.mx!=t.mn){c.push_back(-1);o.push_back(t.mx);} } if(c.size()<=1) continue; pc.push_back(c);po.push_back(o);pw.push_back(t.w); }
    int N=nc; for(auto&c:pc) if(c.size()>2) ++N;
    std::vector<std::vector<double>> A(N,std::vector<double>(N,0)); std::vector<double> b(N,0);
    auto addPin=[&](int c1,int c2,double o1,double o2,double w){ if(c1==c2)return; if(c1==-1){ A[c2][c2]+=w; b[c2]+=w*(o1-o2); return;} if(c2==-1){ A[c1][c1]+=w; b[c1]+=w*(o2-o1); return;} A[c1][c1]+=w;A[c2][c2]+=w;A[c1][c2]-=w;A[c2][c1]-=w; b[c1]+=w*(o2-o1); b[c2]+=w*(o1-o2); };
    int star=nc; for(size_t k=0;k<pc.size();++k){ auto&c=pc[k]; auto&o=po[k]; if(c.size()<=2) addPin(c[0],c[1],o[0],o[1],pw[k]); else { double w=pw[k]/c.size(); for(size_t j=0;j<c.size();++j) addPin(c[j],star,o[j],0,w); ++star; } }
    // cells with empty diagonal: library regularises with 1e-8 -> value 0; skip instances with singular/ill-conditioned systems (free components)
    bool sing=false; for(int i=0;i<N;++i) if(A[i][i]==0){ sing=true; }
    // also floating components (no fixed pin) make the system singular
    std::vector<double> x; auto A2=A; auto b2=b; if(sing||!gauss(A2,b2,x)){ ++skip; continue; }
    // condition guard: check residual small
    double err=0; for(int i=0;i<nc;++i) err=std::max(err,std::fabs(x[i]-sol[i]));
    worstStar=std::max(worstStar,err/span);
    if(err>2e-3*span){ if(!badStar++) wit="star seed "+std::to_string(seed)+" err "+std::to_string(err)+" span "+std::to_string(span); }
    // (b) non-dyadic scaling: weights*2.5 -> same solution within tolerance
    NetModel m2(nc); for(auto&t:nets){ if(t.hasFix) m2.addNet(t.c,t.o,t.mn,t.mx,t.w*2.5f); else m2.addNet(t.c,t.o,t.w*2.5f);} 
    std::vector<float> s2=m2.solveStar(P); double e2=0; for(int i=0;i<nc;++i)e2=std::max(e2,(double)std::fabs(s2[i]-sol[i])); worstScale=std::max(worstScale,e2/span); if(e2>2e-3*span) badScale++;
    ++ok;
  }
  printf("ok=%d skip=%d badStar=%d worstStar(rel)=%.2e badScale=%d worstScale(rel)=%.2e %s\n",ok,skip,badStar,worstStar,badScale,worstScale,wit.c_str());
}
