#include "gen.hpp"
#include <cstdlib>
int main(int argc,char**argv){
  uint64_t seed0=atoll(argv[1]); int n=atoi(argv[2]);
  int triv=0,trivThrow=0,nontrivThrow=0,ok=0; std::string wit;
  for(int it=0;it<n;++it){
    uint64_t seed=seed0*1000003ull+it; Rng rng(seed);
    GenOpts o; o.multiRow=false; o.polarity=false; o.turned=rng.chance(0.5); o.utilLo=0.3; o.utilHi=1.0; o.maxCells=25;
    Circuit c=genCircuit(rng,o);
    ColoquinteParameters P(rng.range(1,9)); P.legalization.orderingWidth=-1+3*rng.unif(); P.legalization.orderingY=-0.2+0.4*rng.unif();
    long long sumW=0; int maxW=0; for(int i=0;i<c.nbCells();++i) if(!c.cellIsFixed_[i]){ sumW+=c.placedWidth(i); maxW=std::max(maxW,c.placedWidth(i)); }
    long long freeW=0; for(auto&r:c.rows_) for(auto s:freeSegments(c,r)) freeW+= (long long)(s.hi-s.lo)-maxW;
    bool trivial = sumW<=freeW;
    bool thr=false; { Quiet q; try{ c.legalize(P);}catch(const std::exception&){thr=true;} }
    if(trivial){ ++triv; if(thr){ if(!trivThrow++) wit="seed "+std::to_string(seed); } } else if(thr) ++nontrivThrow; if(!thr)++ok;
  }
  printf("trivial=%d trivialThrow=%d nontrivThrow=%d ok=%d %s\n",triv,trivThrow,nontrivThrow,ok,wit.c_str());
}
