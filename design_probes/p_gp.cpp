#include "gen.hpp"
#include <cstdlib>
#include <cmath>
#include <sys/wait.h>
#include <unistd.h>
int main(int argc,char**argv){
  uint64_t seed0=atoll(argv[1]); int n=atoi(argv[2]); int scale=argc>3?atoi(argv[3]):1; int forkEach=argc>4?atoi(argv[4]):0;
  std::map<std::string,int> stats; std::map<std::string,std::string> wit;
  for(int it=0;it<n;++it){
    uint64_t seed=seed0*1000003ull+it;
    if(forkEach){ pid_t p=fork(); if(p>0){ int st; waitpid(p,&st,0); if(WIFSIGNALED(st)||WEXITSTATUS(st)!=0){ stats["crash"]++; if(!wit.count("crash")) wit["crash"]="seed "+std::to_string(seed);} else stats["child_ok"]++; continue; } }
    Rng rng(seed);
    GenOpts o; o.maxCells=rng.chance(0.2)?60:15; o.maxRows=rng.chance(0.3)?12:6; o.scale=scale; o.maxNets=rng.chance(0.3)?40:12; o.farInit=true;
    Circuit c0=genCircuit(rng,o);
    // domain: rows at least 4H wide
    int H=c0.rows_[0].height(); bool okd=true; for(auto&r:c0.rows_) if(r.width()<4*H) okd=false;
    bool hasMov=false; for(int i=0;i<c0.nbCells();++i) if(!c0.cellIsFixed_[i]&&c0.area(i)>0) hasMov=true;
    if(!okd||!hasMov){ stats["skip"]++; if(forkEach)_exit(0); continue; }
    ColoquinteParameters params(rng.range(1,9), rng.range(-5,1000));
    params.global.maxNbSteps=rng.range(1,30);
    params.global.nbInitialSteps=rng.range(0,std::min(3,params.global.maxNbSteps-1));
    params.global.continuousModel.netModel=(NetModelOption)rng.range(0,3);
    params.global.roughLegalization.costModel=(LegalizationModel)rng.range(0,5);
    params.global.exportBlending=rng.chance(0.5)?0.99:(-0.5+2.0*rng.unif());
    if(rng.chance(0.5)){ params.global.roughLegalization.binSize=1.0+rng.unif()*10; params.global.roughLegalization.sideMargin=rng.unif()*1.5;
      params.global.roughLegalization.lineReoptSize=rng.range(1,6); params.global.roughLegalization.lineReoptOverlap=rng.range(1,std::max(1,params.global.roughLegalization.lineReoptSize-1));
      params.global.roughLegalization.diagReoptSize=rng.range(1,5); params.global.roughLegalization.diagReoptOverlap=rng.range(1,std::max(1,params.global.roughLegalization.diagReoptSize-1));
      params.global.roughLegalization.squareReoptSize=rng.range(1,4); params.global.roughLegalization.squareReoptOverlap=rng.range(1,std::max(1,params.global.roughLegalization.squareReoptSize-1));
      params.global.roughLegalization.unidimensionalTransport=rng.chance(0.5); params.global.roughLegalization.nbSteps=rng.range(0,3);
      params.global.roughLegalization.targetBlending=-0.1+rng.unif(); params.global.penalty.targetBlending=0.1+rng.unif(); params.global.noise=rng.chance(0.3)?0.0:rng.unif()*0.01;
      params.global.nbStepsBeforeRoughLegalization=rng.range(1,3);
    }
    try{ params.check(); }catch(const std::exception&e){ stats["param_reject"]++; if(forkEach)_exit(0); continue; }
    Rectangle area=c0.computePlacementArea();
    Circuit c=c0; std::string err; int ncb=0;
    std::vector<int> lastLBx,lastLBy,lastUBx,lastUBy;
    PlacementCallback cb=[&](PlacementStep s){ ++ncb;
      if(s==PlacementStep::UpperBound){ lastUBx=c.cellX_; lastUBy=c.cellY_;
        for(int i=0;i<c.nbCells();++i){ if(c.cellIsFixed_[i])continue; if(c.area(i)==0) continue; double cx=c.cellX_[i]+0.5*c.placedWidth(i), cy=c.cellY_[i]+0.5*c.placedHeight(i);
          if(cx<area.minX-1||cx>area.maxX+1||cy<area.minY-1||cy>area.maxY+1){ if(err.empty()) err="UB out of area cell "+std::to_string(i)+" cx="+std::to_string(cx)+" cy="+std::to_string(cy); } } }
      if(s==PlacementStep::LowerBound){ lastLBx=c.cellX_; lastLBy=c.cellY_; }
      for(int i=0;i<c.nbCells();++i){ if(c.cellIsFixed_[i])continue; if(std::abs((long long)c.cellX_[i])>(1LL<<28)||std::abs((long long)c.cellY_[i])>(1LL<<28)) if(err.empty()) err="overflowed coordinate at step "+std::to_string((int)s); }
    };
    {
      Quiet q;
      try{ c.placeGlobal(params,cb); stats["ok"]++; }
      catch(const std::exception&e){ stats[std::string("throw:")+e.what()]++; if(!wit.count("throw")) wit["throw"]="seed "+std::to_string(seed)+" "+e.what()+"\n"+circuitToString(c0); if(forkEach)_exit(0); continue; }
    }
    if(!err.empty()){ stats["C06_bad"]++; if(!wit.count("C06")) wit["C06"]="seed "+std::to_string(seed)+" "+err+"\n"+circuitToString(c0); }
    // blend check
    if(!lastLBx.empty()&&!lastUBx.empty()){
      double w=params.global.exportBlending; double worst=0;
      for(int i=0;i<c.nbCells();++i){ if(c.cellIsFixed_[i])continue; double ex=(1-w)*lastLBx[i]+w*lastUBx[i]; double ey=(1-w)*lastLBy[i]+w*lastUBy[i]; worst=std::max(worst,std::max(std::abs(ex-c.cellX_[i]),std::abs(ey-c.cellY_[i]))); }
      double tol=0.5*(std::abs(1-w)+std::abs(w))+0.5+1e-3*scale;
      if(worst>tol){ stats["C06_blend"]++; if(!wit.count("blend")) wit["blend"]="seed "+std::to_string(seed)+" worst "+std::to_string(worst)+" tol "+std::to_string(tol); }
    }
    // determinism: rerun without callback
    Circuit c2=c0; { Quiet q; try{ c2.placeGlobal(params);}catch(...){ stats["rerun_throw"]++; } }
    if(c2.cellX_!=c.cellX_||c2.cellY_!=c.cellY_||c2.cellOrientation_!=c.cellOrientation_){ stats["C08_diff"]++; if(!wit.count("C08")) wit["C08"]="seed "+std::to_string(seed); }
    if(c.cellOrientation_!=c0.cellOrientation_) stats["C03_orient"]++;
    for(int i=0;i<c.nbCells();++i) if(c.cellIsFixed_[i]&&(c.cellX_[i]!=c0.cellX_[i]||c.cellY_[i]!=c0.cellY_[i])) stats["C03_fixed"]++;
    if(forkEach)_exit(0);
  }
  for(auto&p:stats) printf("%-50s %d\n",p.first.c_str(),p.second);
  for(auto&p:wit) printf("---- %s\n%s\n",p.first.c_str(),p.second.c_str());
}
