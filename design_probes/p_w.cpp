#include "gen.hpp"
#include <cstdlib>
#include <cmath>
int main(int argc,char**argv){
  uint64_t seed0=atoll(argv[1]); int n=atoi(argv[2]);
  int ok=0,diff=0,skip=0; std::string wit;
  for(int it=0;it<n;++it){
    uint64_t seed=seed0*1000003ull+it; Rng rng(seed);
    GenOpts o; o.maxCells=20; o.maxNets=20; Circuit c0=genCircuit(rng,o);
    int H=c0.rows_[0].height(); bool okd=true; for(auto&r:c0.rows_) if(r.width()<4*H) okd=false;
    bool hasMov=false; for(int i=0;i<c0.nbCells();++i) if(!c0.cellIsFixed_[i]&&c0.area(i)>0) hasMov=true;
    if(!okd||!hasMov||c0.nbNets()==0){++skip;continue;}
    ColoquinteParameters p(rng.range(1,9),3); p.global.maxNbSteps=rng.range(1,20); p.global.continuousModel.netModel=(NetModelOption)rng.range(0,3);
    float k = (float)std::ldexp(1.0, rng.range(-3,4)); if(k==1.0f) k=4.0f;
    Circuit a=c0,b=c0; std::vector<float> w=b.netWeights_; for(auto&x:w)x*=k; b.setNetWeights(w);
    ColoquinteParameters pb=p; pb.global.penalty.initialValue*=k;
    { Quiet q; try{ a.placeGlobal(p); b.placeGlobal(pb);}catch(...){++skip;continue;} }
    if(a.cellX_!=b.cellX_||a.cellY_!=b.cellY_){ if(!diff++) wit="seed "+std::to_string(seed)+" k="+std::to_string(k); } else ++ok;
  }
  printf("ok=%d diff=%d skip=%d %s\n",ok,diff,skip,wit.c_str());
}
