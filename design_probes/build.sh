#!/bin/bash
# usage: build.sh <variant> ; variants: asan, plain, tsan
set -e
V=$1
case $V in
  asan) FL="-O1 -g -fno-omit-frame-pointer -fsanitize=address,undefined -fno-sanitize-recover=all";;
  plain) FL="-O2 -g";;
  ndebug) FL="-O2 -g -DNDEBUG";;
  tsan) FL="-O1 -g -fsanitize=thread";;
  asanf) FL="-O1 -g -fno-omit-frame-pointer -fsanitize=address,undefined,float-cast-overflow -fno-sanitize-recover=all";;
esac
mkdir -p obj_$V
SRCS=$(cd /tmp/probe && ls src/*.cpp src/*/*.cpp)
for s in $SRCS; do
  o=obj_$V/$(echo $s | tr '/' '_' | sed 's/.cpp$/.o/')
  if [ ! -f $o ] || [ /tmp/probe/$s -nt $o ]; then
    echo "g++ -std=gnu++17 -DCOLOQUINTE_VERIF $FL -I/tmp/probe/src -c /tmp/probe/$s -o $o"
  fi
done | xargs -P 16 -I{} sh -c "{}"
rm -f libcol_$V.a; ar rcs libcol_$V.a obj_$V/*.o
echo built libcol_$V.a
