#include "place_global/transportation.hpp"
#include "gen.hpp"
#include <lemon/network_simplex.h>
#include <lemon/smart_graph.h>
#include <cstdlib>
using namespace lemon;
static long long oracle(const std::vector<long long>&cap,const std::vector<long long>&dem,const std::vector<std::vector<int>>&cost){
  SmartDigraph g; int S=dem.size(), K=cap.size();
  std::vector<SmartDigraph::Node> src(S), snk(K);
  for(auto&n:src)n=g.addNode(); for(auto&n:snk)n=g.addNode();
  SmartDigraph::Node T=g.addNode();
  SmartDigraph::ArcMap<long long> c(g,0), u(g,0); SmartDigraph::NodeMap<long long> sup(g,0);
  long long tot=0;
  for(int i=0;i<S;++i){ sup[src[i]]=dem[i]; tot+=dem[i]; for(int k=0;k<K;++k){ auto a=g.addArc(src[i],snk[k]); c[a]=cost[k][i]; u[a]=dem[i]; } }
  for(int k=0;k<K;++k){ auto a=g.addArc(snk[k],T); c[a]=0; u[a]=cap[k]; }
  sup[T]=-tot;
  NetworkSimplex<SmartDigraph,long long,long long> ns(g); ns.costMap(c).upperMap(u).supplyMap(sup);
  auto r=ns.run(); if(r!=ns.OPTIMAL) return -1; return ns.totalCost<long long>();
}
int main(int argc,char**argv){
  uint64_t seed0=atoll(argv[1]); int n=atoi(argv[2]);
  int bad_feas=0,bad_opt=0,bad_assign=0,thr=0,ok=0; std::string wit;
  for(int it=0;it<n;++it){
    Rng rng(seed0*7919+it);
    int K=rng.range(1,rng.chance(0.2)?16:5), S=rng.range(1,rng.chance(0.2)?40:8);
    std::vector<long long> cap(K),dem(S);
    long long maxv = rng.chance(0.3)? 3 : (rng.chance(0.5)? 20: 100000);
    for(auto&d:dem)d=rng.range(1,maxv); long long td=0; for(auto d:dem)td+=d;
    for(auto&c:cap)c=rng.range(1,maxv); long long tc=0; for(auto c:cap)tc+=c;
    bool useFloat=rng.chance(0.5);
    std::vector<std::vector<int>> ci(K,std::vector<int>(S)); std::vector<std::vector<float>> cf(K,std::vector<float>(S));
    int cmax = rng.chance(0.3)?2:(rng.chance(0.5)?10:1000000);
    for(int k=0;k<K;++k)for(int i=0;i<S;++i){ ci[k][i]=rng.range(0,cmax); cf[k][i]=rng.chance(0.2)?0.0f:(float)(rng.unif()*cmax); }
    try{
      TransportationProblem pb = useFloat? TransportationProblem(cap,dem,cf): TransportationProblem(cap,dem,ci);
      if(td>tc){ if(rng.chance(0.5)){pb.increaseCapacity();} else { // scale capacities up
          continue; } }
      std::vector<long long> cap2=pb.capacities();
      pb.solve();
      // feasibility
      bool feas=true; auto&al=pb.allocations();
      for(int i=0;i<S;++i){ long long s=0; for(int k=0;k<K;++k){ if(al[k][i]<0)feas=false; s+=al[k][i]; } if(s!=dem[i])feas=false; }
      for(int k=0;k<K;++k){ long long s=0; for(int i=0;i<S;++i)s+=al[k][i]; if(s>cap2[k])feas=false; }
      if(!feas){ if(!bad_feas++) wit="feas seed "+std::to_string(seed0*7919+it); continue; }
      long long cst=0; for(int k=0;k<K;++k)for(int i=0;i<S;++i) cst+=al[k][i]*(long long)pb.costs()[k][i];
      long long opt=oracle(cap2,dem,pb.costs());
      if(cst!=opt){ if(!bad_opt++) wit="opt seed "+std::to_string(seed0*7919+it)+" cost "+std::to_string(cst)+" opt "+std::to_string(opt)+" K="+std::to_string(K)+" S="+std::to_string(S)+" float="+std::to_string(useFloat); }
      auto as=pb.toAssignment();
      for(int i=0;i<S;++i){ long long best=-1; for(int k=0;k<K;++k)best=std::max(best,al[k][i]); if(al[as[i]][i]!=best) bad_assign++; }
      ++ok;
    }catch(const std::exception&e){ ++thr; }
  }
  printf("ok=%d thr=%d bad_feas=%d bad_opt=%d bad_assign=%d\n%s\n",ok,thr,bad_feas,bad_opt,bad_assign,wit.c_str());
}
