#include "gen.hpp"
#include <atomic>
#include <thread>
#include <chrono>
#include <mutex>
#include <cstdlib>
namespace coloquinte { namespace verif { extern std::atomic<void (*)(const void *)> onSolveBegin; extern std::atomic<void (*)(const void *)> onSolveEnd; } }
static std::atomic<int> seq{0};
struct Ev{ const void*m; int kind; int seq; };
static Ev evs[100000]; static std::atomic<int> nev{0};
static std::atomic<int> policy{0}; // 0 none 1 delay low address (x) 2 delay high (y) 3 alternate
static std::atomic<const void*> lowAddr{nullptr}, highAddr{nullptr};
static std::atomic<int> beginCount{0};
static void onBegin(const void*m){ int b=beginCount++; int k=nev++; evs[k]={m,0,seq++};
  // learn addresses
  const void* lo=lowAddr.load(); if(!lo){ const void* exp=nullptr; lowAddr.compare_exchange_strong(exp,m);} 
  int pol=policy.load(); if(pol==0) return;
  int step=b/2; bool delayLow = pol==1 || (pol==3 && step%2==0) || (pol==4 && (step*2654435761u>>16)%2);
  // x/y by address ordering: need both addresses; approximate: compare with first-seen pointer set
  static std::atomic<const void*> a1{nullptr}, a2{nullptr};
  const void* e=nullptr; if(!a1.compare_exchange_strong(e,m) && a1.load()!=m){ const void* e2=nullptr; a2.compare_exchange_strong(e2,m);} 
  const void* A=a1.load(); const void* B=a2.load(); bool isLow = B? (m==std::min(A,B)) : (m==A);
  if(isLow==delayLow) std::this_thread::sleep_for(std::chrono::milliseconds(3));
}
static void onEnd(const void*m){ int k=nev++; evs[k]={m,1,seq++}; }
int main(int argc,char**argv){
  uint64_t seed0=atoll(argv[1]); int n=atoi(argv[2]);
  coloquinte::verif::onSolveBegin=onBegin; coloquinte::verif::onSolveEnd=onEnd;
  int diff=0,runs=0; long lowFirst=0,highFirst=0;
  for(int it=0;it<n;++it){ uint64_t seed=seed0*1000003ull+it; Rng rng(seed); GenOpts o; o.maxCells=20; Circuit c0=genCircuit(rng,o);
    int H=c0.rows_[0].height(); bool okd=true; for(auto&r:c0.rows_) if(r.width()<4*H) okd=false; bool hasMov=false; for(int i=0;i<c0.nbCells();++i) if(!c0.cellIsFixed_[i]&&c0.area(i)>0) hasMov=true; if(!okd||!hasMov) continue;
    ColoquinteParameters P(3,5); P.global.maxNbSteps=rng.range(2,8);
    std::vector<int> bx,by;
    for(int pol=0;pol<=4;++pol){ policy=pol; beginCount=0; int startEv=nev; Circuit c=c0; { Quiet q; c.placeGlobal(P);} ++runs;
      // completion order per step
      for(int k=startEv;k+3<nev.load();k+=4){ // events of a step: 2 begins 2 ends in some order
        const void* firstEnd=nullptr; const void* lo=nullptr; const void* hi=nullptr; for(int j=k;j<k+4;++j){ if(evs[j].kind==1&&!firstEnd) firstEnd=evs[j].m; if(!lo||evs[j].m<lo)lo=evs[j].m; if(!hi||evs[j].m>hi)hi=evs[j].m; }
        if(firstEnd==lo) ++lowFirst; else ++highFirst; }
      if(pol==0){bx=c.cellX_;by=c.cellY_;} else if(c.cellX_!=bx||c.cellY_!=by) ++diff; }
    if(nev>90000) nev=0;
  }
  printf("runs=%d diff=%d lowFirst=%ld highFirst=%ld\n",runs,diff,lowFirst,highFirst);
}
