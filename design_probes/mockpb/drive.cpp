#include "../../../repo/pycoloquinte/module.cpp"
#include <cstddef>
int main(){ pybind11::module_ m; pybind11_init_coloquinte_pybind(m);
  int bad=0;
  for(auto&r:pybind11::records()){
    if(r.kind=="enum") printf("%s.%s = %lld\n",r.scope.c_str(),r.name.c_str(),r.enumValue);
  }
  // check one member pointer
  auto exp=pybind11::rawBytes(&GlobalPlacerParameters::maxNbSteps);
  for(auto&r:pybind11::records()) if(r.scope=="GlobalPlacerParameters"&&r.name=="max_nb_steps") printf("max_nb_steps matches: %d\n",(int)(r.memberBytes==exp));
  printf("records: %zu\n",pybind11::records().size());
}
