#include "gen.hpp"
#include <cstdlib>
#include <cmath>
#include <sys/wait.h>
#include <unistd.h>
int main(int argc,char**argv){
  uint64_t seed0=atoll(argv[1]); int n=atoi(argv[2]); int neg=argc>3?atoi(argv[3]):0;
  std::map<std::string,int> stats; std::string firstCrash;
  for(int it=0;it<n;++it){
    uint64_t seed=seed0*1000003ull+it;
    pid_t p=fork();
    if(p>0){ int st; waitpid(p,&st,0); if(WIFSIGNALED(st)){ stats["signal"+std::to_string(WTERMSIG(st))]++; if(firstCrash.empty())firstCrash=std::to_string(seed);} else stats["exit"+std::to_string(WEXITSTATUS(st))]++; continue; }
    alarm(60);
    Rng rng(seed); GenOpts o; o.maxCells=40; o.maxRows=10; o.maxNets=30; Circuit c=genCircuit(rng,o);
    bool hasMov=false; for(int i=0;i<c.nbCells();++i) if(!c.cellIsFixed_[i]&&c.area(i)>0) hasMov=true; if(!hasMov)_exit(0);
    ColoquinteParameters P(rng.range(1,9),rng.range(-100,100)); auto&g=P.global; auto&r=g.roughLegalization;
    g.maxNbSteps=rng.range(1,40); g.nbInitialSteps=rng.range(0,3); g.nbStepsBeforeRoughLegalization=rng.range(1,4); g.gapTolerance=rng.unif(); g.distanceTolerance=rng.chance(0.5)?0.0:rng.unif()*5; g.penaltyUpdateDistance=1e-3+rng.unif()*50; g.penaltyUpdateBackoff=1+rng.unif()*3; g.exportBlending=-0.5+2*rng.unif(); g.noise=rng.chance(0.3)?2.0:rng.unif()*0.1;
    g.continuousModel.netModel=(NetModelOption)rng.range(0,3); g.continuousModel.approximationDistance=rng.chance(0.3)?0.1:(0.1+rng.unif()*100); g.continuousModel.approximationDistanceUpdateFactor=0.8+0.4*rng.unif(); g.continuousModel.maxNbConjugateGradientSteps=rng.range(1,2000); g.continuousModel.conjugateGradientErrorTolerance=rng.chance(0.3)?1e-6:std::pow(10.0,-6+6*rng.unif());
    r.costModel=(LegalizationModel)rng.range(0,5); r.nbSteps=rng.range(0,4); r.binSize=rng.chance(0.3)?25.0:(1+24*rng.unif()); r.lineReoptSize=rng.chance(0.2)?64:rng.range(1,10); r.lineReoptOverlap=rng.range(1,std::max(1,r.lineReoptSize-1)); r.diagReoptSize=rng.chance(0.2)?64:rng.range(1,8); r.diagReoptOverlap=rng.range(1,std::max(1,r.diagReoptSize-1)); r.squareReoptSize=rng.range(1,8); r.squareReoptOverlap=rng.range(1,std::max(1,r.squareReoptSize-1)); r.unidimensionalTransport=rng.chance(0.5); r.quadraticPenalty=rng.chance(0.3)?1.0:rng.unif()*0.1; r.targetBlending=-0.1+rng.unif(); 
    r.sideMargin= neg? (rng.chance(0.5)? -rng.unif()*5 : rng.unif()*30) : rng.unif()*3; r.coarseningLimit= neg? (rng.chance(0.3)? -1.0 : (rng.chance(0.5)?0.0:rng.unif()*1000)) : (rng.chance(0.5)?100:rng.unif()*10);
    g.penalty.cutoffDistance=0.1+rng.unif()*100; g.penalty.cutoffDistanceUpdateFactor=0.8+0.4*rng.unif(); g.penalty.areaExponent=0.49+0.52*rng.unif(); g.penalty.initialValue=1e-4+rng.unif(); g.penalty.updateFactor=1.0001+0.99*rng.unif(); g.penalty.targetBlending=0.1+rng.unif();
    try{P.check();}catch(...){_exit(9);}
    int rc=0; { Quiet q; try{ c.placeGlobal(P); for(int i=0;i<c.nbCells();++i) if(std::abs((long long)c.cellX_[i])>(1<<28)) rc=4; c.placeDetailed(P); }catch(const std::exception&e){ rc=2; } }
    _exit(rc);
  }
  for(auto&p:stats) printf("%-20s %d\n",p.first.c_str(),p.second); printf("first crash seed %s\n",firstCrash.c_str());
}
