#include "gen.hpp"
#include "place_detailed/incr_net_model.hpp"
#include <cstdlib>
// from-scratch 1D hpwl with a subset movable and others fixed at circuit positions; nets with <=1 distinct pin groups still counted
static long long ref1d(const Circuit&c,const std::vector<int>&pos,bool xdir){
  long long tot=0; for(int n=0;n<c.nbNets();++n){ if(c.nbPinsNet(n)==0)continue; long long mn=1LL<<60,mx=-(1LL<<60); for(int j=0;j<c.nbPinsNet(n);++j){ int cell=c.pinCell(n,j); long long p=pos[cell]+(xdir?c.pinXOffset(n,j):c.pinYOffset(n,j)); mn=std::min(mn,p);mx=std::max(mx,p);} tot+=mx-mn; } return tot; }
int main(int argc,char**argv){
  uint64_t seed0=atoll(argv[1]); int n=atoi(argv[2]); int bad=0,ok=0,upd=0; std::string wit;
  for(int it=0;it<n;++it){ uint64_t seed=seed0*1000003ull+it; Rng rng(seed); GenOpts o; Circuit c=genCircuit(rng,o);
    std::vector<int> cells; for(int i=0;i<c.nbCells();++i) if(rng.chance(0.6)) cells.push_back(i); for(int i=(int)cells.size()-1;i>0;--i) std::swap(cells[i],cells[rng.range(0,i)]);
    for(int dir=0;dir<2;++dir){ IncrNetModel m= dir==0? IncrNetModel::xTopology(c,cells): IncrNetModel::yTopology(c,cells);
      std::vector<int> pos= dir==0? c.cellX_: c.cellY_;
      try{ m.check(); }catch(const std::exception&e){ if(!bad++) wit=std::string("check ")+e.what(); }
      if(m.value()!=ref1d(c,pos,dir==0)){ if(!bad++) wit="init seed "+std::to_string(seed); continue; }
      for(int k=0;k<30;++k){ if(cells.empty())break; int idx=rng.range(0,(int)cells.size()-1); int np=rng.range(-300,300); m.updateCellPos(idx,np); pos[cells[idx]]=np; ++upd; if(m.value()!=ref1d(c,pos,dir==0)){ if(!bad++) wit="upd seed "+std::to_string(seed); break; } }
      ++ok; }
  }
  printf("ok=%d bad=%d updates=%d %s\n",ok,bad,upd,wit.c_str());
}
