#include "gen.hpp"
#include "place_detailed/place_detailed.hpp"
#include <cstdlib>
int main(int argc,char**argv){
  uint64_t seed0=atoll(argv[1]); int n=atoi(argv[2]);
  std::map<std::string,int> st; std::map<std::string,std::string> wit;
  auto note=[&](const std::string&k,uint64_t seed,const std::string&m){ if(!st[k]++) wit[k]="seed "+std::to_string(seed)+" "+m; };
  for(int it=0;it<n;++it){
    uint64_t seed=seed0*1000003ull+it; Rng rng(seed);
    GenOpts o; o.maxCells=rng.chance(0.3)?30:12; Circuit c=genCircuit(rng,o);
    ColoquinteParameters params(3,1);
    { Quiet q; try{ c.legalize(params);}catch(...){ st["leg_throw"]++; continue; } }
    std::vector<CellOrientation> legO=c.cellOrientation_; std::vector<int> lx=c.cellX_, ly=c.cellY_;
    int H=c.rows_[0].height();
    try{
      DetailedPlacer pl(c,params);
      pl.check();
      long long v=pl.value(); if(v!=c.hpwl()) { /* nets of degree 1 are dropped: hpwl 0 for them: equal */ note("value_init",seed,std::to_string(v)+" vs "+std::to_string(c.hpwl())); }
      int ops=rng.range(1,10);
      for(int k=0;k<ops;++k){
        int op=rng.range(0,3); long long before=pl.value();
        std::string d;
        if(op==0){ int a=rng.range(0,4),b=rng.range(0,10); pl.runSwaps(a,b); d="swaps "+std::to_string(a)+","+std::to_string(b);} 
        else if(op==1){ int a=rng.range(0,4),b=rng.range(0,10); pl.runInserts(a,b); d="inserts";}
        else if(op==2){ int a=rng.range(1,6),b=rng.range(2,40); pl.runShifts(a,b); d="shifts "+std::to_string(a)+","+std::to_string(b);} 
        else { int a=rng.range(1,3),b=rng.range(2,5); pl.runReordering(a,b); d="reorder "+std::to_string(a)+","+std::to_string(b);} 
        pl.check();
        long long after=pl.value();
        if(after>before) note("value_increased",seed,d+" "+std::to_string(before)+"->"+std::to_string(after));
        Circuit e=c; pl.exportPlacement(e);
        std::string le=checkLegal(e); if(!le.empty()) note("illegal_after_"+d.substr(0,5),seed,d+": "+le);
        Circuit f=e; f.cellOrientation_=legO; if(f.hpwl()!=after) note("value_mismatch",seed,d+" value="+std::to_string(after)+" frozen hpwl="+std::to_string(f.hpwl()));
        for(int i=0;i<e.nbCells();++i) if(!e.cellIsFixed_[i]&&e.placedHeight(i)!=H&&(e.cellX_[i]!=lx[i]||e.cellY_[i]!=ly[i])) note("macro_moved",seed,d);
        std::string pe=checkPolarity(e,legO); // ANY cells must keep legalized orientation
        if(!pe.empty()) note("polarity",seed,d+": "+pe);
      }
      st["ok"]++;
    }catch(const std::exception&e){ note(std::string("throw:")+e.what(),seed,""); }
  }
  for(auto&p:st) printf("%-40s %d\n",p.first.c_str(),p.second); for(auto&p:wit) printf("-- %s: %s\n",p.first.c_str(),p.second.c_str());
}
