#include "gen.hpp"
#include "place_global/density_legalizer.hpp"
#include <cstdlib>
#include <cmath>
#include <climits>
int main(int argc,char**argv){
  uint64_t seed0=atoll(argv[1]); int n=atoi(argv[2]);
  std::map<std::string,int> st; std::map<std::string,std::string> wit;
  auto note=[&](const std::string&k,uint64_t seed,const std::string&m){ if(!st[k]++) wit[k]="seed "+std::to_string(seed)+" "+m; };
  for(int it=0;it<n;++it){
    uint64_t seed=seed0*1000003ull+it; Rng rng(seed);
    GenOpts o; o.maxCells=25; o.maxFixed=4; Circuit c=genCircuit(rng,o);
    float sizeFactor=1.0f+(float)rng.unif()*6; float margin=rng.chance(0.4)?0.0f:(float)rng.unif()*1.5f;
    bool hasMov=false; for(int i=0;i<c.nbCells();++i) if(c.cellHeight_[i]>0) hasMov=true; if(!hasMov){st["skip"]++;continue;}
    try{
      DensityLegalizer leg=DensityLegalizer::fromIspdCircuit(c,sizeFactor,margin);
      const DensityGrid&g=leg.grid();
      // oracle capacity
      int minH=INT_MAX; for(int i=0;i<c.nbCells();++i) if(c.cellHeight_[i]>0) minH=std::min(minH,c.cellHeight_[i]);
      int m=(int)(margin*minH);
      std::vector<Rectangle> regs; for(auto&r:c.rows_) for(auto s:freeSegments(c,r)){ if(s.hi-s.lo<=2*m) continue; regs.emplace_back(s.lo+m,s.hi-m,r.minY,r.maxY);}      
      // tiling
      bool tile=true; for(int i=0;i<g.nbBinsX();++i) if(g.binLimitX(i)>g.binLimitX(i+1)) tile=false; for(int j=0;j<g.nbBinsY();++j) if(g.binLimitY(j)>g.binLimitY(j+1)) tile=false;
      if(!regs.empty()){ int mnx=INT_MAX,mxx=INT_MIN,mny=INT_MAX,mxy=INT_MIN; for(auto&r:regs){mnx=std::min(mnx,r.minX);mxx=std::max(mxx,r.maxX);mny=std::min(mny,r.minY);mxy=std::max(mxy,r.maxY);} if(g.binLimitX(0)!=mnx||g.binLimitX(g.nbBinsX())!=mxx||g.binLimitY(0)!=mny||g.binLimitY(g.nbBinsY())!=mxy) tile=false; }
      if(!tile) note("tile",seed,"");
      long long tot=0;
      for(int i=0;i<g.nbBinsX();++i)for(int j=0;j<g.nbBinsY();++j){ Rectangle b=g.region(i,j); long long cap=0; for(auto&r:regs){ long long w=std::min(r.maxX,b.maxX)-std::max(r.minX,b.minX), h=std::min(r.maxY,b.maxY)-std::max(r.minY,b.minY); if(w>0&&h>0)cap+=w*h; } if(cap!=g.binCapacity(i,j)) note("cap",seed,"bin "+std::to_string(i)+","+std::to_string(j)+" got "+std::to_string(g.binCapacity(i,j))+" exp "+std::to_string(cap)); tot+=cap; }
      if(tot!=leg.totalCapacity()) note("totcap",seed,"");
      // random history
      DensityLegalizer::Parameters p; p.nbSteps=rng.range(0,2); p.costModel=(LegalizationModel)rng.range(0,5); p.lineReoptSize=rng.range(1,5); p.lineReoptOverlap=rng.range(1,std::max(1,p.lineReoptSize-1)); p.diagReoptSize=rng.range(1,4); p.diagReoptOverlap=rng.range(1,std::max(1,p.diagReoptSize-1)); p.squareReoptSize=rng.range(1,3); p.squareReoptOverlap=1; p.unidimensionalTransport=rng.chance(0.5)&&p.costModel==LegalizationModel::L1; p.coarseningLimit=rng.chance(0.5)?100.0:rng.unif()*3; p.quadraticPenaltyFactor=rng.chance(0.5)?0.0:1e-3*rng.unif();
      leg.setParams(p);
      Rectangle a=leg.placementArea();
      auto checkState=[&](const char*where){
        std::vector<int> cnt(leg.nbCells(),0); long long capSum=0;
        for(int i=0;i<leg.nbBinsX();++i)for(int j=0;j<leg.nbBinsY();++j){ capSum+=leg.binCapacity(i,j); for(int cc:leg.binCells(i,j)){ cnt[cc]++; if(leg.cellBinX(cc)!=i||leg.cellBinY(cc)!=j) note("cellbin",seed,where);} }
        if(capSum!=tot) note("coarse_cap",seed,where);
        for(int cc=0;cc<leg.nbCells();++cc){ int want=leg.cellDemand(cc)>0?1:0; if(cnt[cc]!=want) note("cellcount",seed,std::string(where)+" cell "+std::to_string(cc)+" cnt "+std::to_string(cnt[cc])); }
        std::vector<float> tx(leg.nbCells()),ty(leg.nbCells()); for(int cc=0;cc<leg.nbCells();++cc){tx[cc]=leg.cellTargetX(cc);ty[cc]=leg.cellTargetY(cc);}        
        auto sx=leg.spreadCoordX(tx), sy=leg.spreadCoordY(ty);
        for(int cc=0;cc<leg.nbCells();++cc){ if(leg.cellDemand(cc)<=0)continue; int bx=leg.cellBinX(cc),by=leg.cellBinY(cc); if(!(sx[cc]>=leg.binLimitX(bx)&&sx[cc]<=leg.binLimitX(bx+1)&&sy[cc]>=leg.binLimitY(by)&&sy[cc]<=leg.binLimitY(by+1))) note("spread_outside",seed,where); if(!std::isfinite(sx[cc])||!std::isfinite(sy[cc])) note("nonfinite",seed,where); }
      };
      std::vector<float> tx(leg.nbCells()),ty(leg.nbCells());
      for(int k=0;k<leg.nbCells();++k){ tx[k]=rng.chance(0.1)?a.minX-50+rng.unif()*200:(a.minX+rng.unif()*(a.width())); ty[k]=rng.chance(0.1)?a.minY-50:(a.minY+rng.unif()*a.height()); if(rng.chance(0.1)&&k>0){tx[k]=tx[k-1];ty[k]=ty[k-1];} }
      leg.updateCellTargetX(tx); leg.updateCellTargetY(ty);
      checkState("init");
      int ops=rng.range(1,12);
      for(int k=0;k<ops;++k){ int op=rng.range(0,6);
        if(op==0&&leg.levelX()>0) leg.refineX(); else if(op==1&&leg.levelY()>0) leg.refineY(); else if(op==2&&leg.levelX()+1<leg.nbLevelX()) leg.coarsenX(); else if(op==3&&leg.levelY()+1<leg.nbLevelY()) leg.coarsenY(); else if(op==4) leg.improve(); else if(op==5) { if(leg.totalDemand()>0) leg.run(); } else if(op==6 && (leg.levelX()>0||leg.levelY()>0)) leg.refine();
        checkState("op"); }
      st["ok"]++;
    }catch(const std::exception&e){ note(std::string("throw:")+e.what(),seed,""); }
  }
  for(auto&p:st) printf("%-30s %d\n",p.first.c_str(),p.second); for(auto&p:wit) printf("-- %s: %s\n",p.first.c_str(),p.second.c_str());
}
