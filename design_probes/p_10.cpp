#include "gen.hpp"
#include <cstdlib>
struct Boom{};
static bool sameFrame(const Circuit&a,const Circuit&b){ return a.netLimits_==b.netLimits_&&a.pinCells_==b.pinCells_&&a.pinXOffsets_==b.pinXOffsets_&&a.pinYOffsets_==b.pinYOffsets_&&a.netWeights_==b.netWeights_&&a.cellWidth_==b.cellWidth_&&a.cellHeight_==b.cellHeight_&&a.cellIsFixed_==b.cellIsFixed_&&a.cellIsObstruction_==b.cellIsObstruction_&&a.cellRowPolarity_==b.cellRowPolarity_&&a.rows_.size()==b.rows_.size(); }
int main(int argc,char**argv){ uint64_t seed0=atoll(argv[1]); int n=atoi(argv[2]);
  std::map<std::string,int> st; long totalThrowPoints=0;
  for(int it=0;it<n;++it){ uint64_t seed=seed0*1000003ull+it; Rng rng(seed); GenOpts o; o.maxCells=15; Circuit c0=genCircuit(rng,o);
    ColoquinteParameters P(rng.range(1,9),1); P.global.maxNbSteps=rng.range(1,6); P.detailed.nbPasses=rng.range(0,2);
    for(int stage=0;stage<3;++stage){
      auto call=[&](Circuit&c,const PlacementCallback&cb){ Quiet q; if(stage==0)c.placeGlobal(P,cb); else if(stage==1)c.legalize(P,cb); else c.placeDetailed(P,cb); };
      int K=0; bool baseThrow=false; { Circuit c=c0; try{ call(c,[&](PlacementStep){++K;}); }catch(const std::exception&){ baseThrow=true; } }
      for(int k=1;k<=K+(baseThrow?1:0)||k==1;++k){ if(k>K&&!baseThrow&&K>0)break; Circuit c=c0; int idx=0; int refusedAll=0,cbs=0; bool frameBroken=false; bool threw=false;
        PlacementCallback cb=[&](PlacementStep){ ++idx; ++cbs; Circuit before=c; int refused=0;
          try{ c.addNet({0},{0},{0}); }catch(const std::runtime_error&){++refused;}
          try{ c.setNets({0},{},{},{}); }catch(const std::runtime_error&){++refused;}
          try{ c.setRows(c.rows_); }catch(const std::runtime_error&){++refused;}
          try{ c.setupRows(Rectangle(0,10,0,10),2); }catch(const std::runtime_error&){++refused;}
          try{ c.setCellIsFixed(c.cellIsFixed_); }catch(const std::runtime_error&){++refused;}
          try{ c.setCellIsObstruction(c.cellIsObstruction_); }catch(const std::runtime_error&){++refused;}
          try{ c.setCellRowPolarity(c.cellRowPolarity_); }catch(const std::runtime_error&){++refused;}
          if(refused!=7) st["setter_accepted_in_cb"]++; if(!sameFrame(before,c)) frameBroken=true;
          if(idx==k){ if(k%2) throw std::runtime_error("boom"); else throw Boom(); } };
        try{ call(c,cb); }catch(const std::exception&){threw=true;}catch(const Boom&){threw=true;}
        ++totalThrowPoints; if(frameBroken) st["frame_broken"]++;
        // after: setters accepted
        try{ Circuit d=c; d.setRows(d.rows_); d.setCellIsFixed(d.cellIsFixed_); d.setCellIsObstruction(d.cellIsObstruction_); d.setCellRowPolarity(d.cellRowPolarity_); d.addNet({0},{0},{0}); d.setupRows(Rectangle(0,10,0,10),2); d.check(); st["after_ok"]++; }catch(const std::exception&e){ st[std::string("after_refused:")+e.what()]++; }
        // further call
        { Circuit d=c; try{ call(d,[](PlacementStep){}); st["further_ok"]++; }catch(const std::exception&){ st["further_throw"]++; } }
        if(K==0)break;
      }
    }
  }
  printf("throw points %ld\n",totalThrowPoints); for(auto&p:st) printf("%-60s %d\n",p.first.c_str(),p.second);
}
