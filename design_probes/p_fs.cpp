#include "gen.hpp"
#include <cstdlib>
#include <climits>
// oracle: free columns of row = columns x in [minX,maxX) s.t. no obstacle (positive area) intersects [x,x+1) x [minY,maxY)
static std::vector<std::pair<int,int>> oracle(const Row&r,const std::vector<Rectangle>&obs){
  std::vector<std::pair<int,int>> ret; int start=INT_MIN;
  for(int x=r.minX;x<=r.maxX;++x){
    bool fr = x<r.maxX;
    if(fr) for(auto&o:obs){ if(o.minX<o.maxX&&o.minY<o.maxY&&o.minX<x+1&&x<o.maxX&&o.minY<r.maxY&&r.minY<o.maxY){fr=false;break;} }
    if(fr&&start==INT_MIN)start=x; if(!fr&&start!=INT_MIN){ret.push_back({start,x});start=INT_MIN;}
  }
  return ret;
}
int main(int argc,char**argv){
  uint64_t seed0=atoll(argv[1]); int n=atoi(argv[2]);
  int bad=0,ok=0; std::string wit;
  for(int it=0;it<n;++it){
    Rng rng(seed0*31337+it);
    int x0=rng.range(-3,3), w=rng.range(0,8), y0=rng.range(-2,2), h=rng.range(0,3);
    Row row(x0,x0+w,y0,y0+h,rng.chance(0.5)?CellOrientation::N:CellOrientation::FS);
    int no=rng.range(0,4); std::vector<Rectangle> obs;
    for(int k=0;k<no;++k){ int a=rng.range(-5,10), b=a+rng.range(0,6), c=rng.range(-4,5), d=c+rng.range(0,4); obs.emplace_back(a,b,c,d);}    
    std::vector<Row> fs; 
    try{ fs=row.freespace(obs);}catch(const std::exception&e){ if(!bad++) wit=std::string("throw ")+e.what(); continue; }
    std::vector<std::pair<int,int>> got; bool good=true;
    for(auto&f:fs){ if(f.minY!=row.minY||f.maxY!=row.maxY||f.orientation!=row.orientation||f.minX>=f.maxX) good=false; got.push_back({f.minX,f.maxX}); }
    std::sort(got.begin(),got.end());
    auto exp=oracle(row,obs);
    if(w<=0||h<=0) exp.clear();
    if(!good||got!=exp){ if(!bad++){ std::ostringstream ss; ss<<"seed "<<seed0*31337+it<<" row "<<row.minX<<".."<<row.maxX<<" x "<<row.minY<<".."<<row.maxY<<" obs:"; for(auto&o:obs)ss<<" ["<<o.minX<<","<<o.maxX<<")x["<<o.minY<<","<<o.maxY<<")"; ss<<" got:"; for(auto&g:got)ss<<" "<<g.first<<".."<<g.second; ss<<" exp:"; for(auto&g:exp)ss<<" "<<g.first<<".."<<g.second; wit=ss.str(); } }
    else ++ok;
  }
  printf("ok=%d bad=%d\n%s\n",ok,bad,wit.c_str());
}
