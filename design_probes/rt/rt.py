import sys
sys.path.insert(0,'/tmp/probe/rt/stub'); sys.path.insert(0,'/repo/pycoloquinte')
import coloquinte
base=sys.argv[1]
c=coloquinte.Circuit.read_ispd(base+".aux")
t=open(base+".truth").read().split("\n"); k=0
n=int(t[k]); k+=1; bad=[]
for i in range(n):
    w,h,f,x,y,o=t[k].split(); k+=1
    if (c.cell_width[i],c.cell_height[i],int(c.cell_is_fixed[i]),c.cell_x[i],c.cell_y[i],c.cell_orientation[i].name)!=(int(w),int(h),int(f),int(x),int(y),o): bad.append(("cell",i))
nn=int(t[k]); k+=1
if nn!=len(c.nets): bad.append(("nbnets",nn,len(c.nets)))
for j in range(min(nn,len(c.nets))):
    v=list(map(int,t[k].split())); k+=1
    cells=v[1::3]; xo=v[2::3]; yo=v[3::3]
    if c.nets[j][0]!=cells: bad.append(("netcells",j))
    elif c.nets[j][1]!=xo or c.nets[j][2]!=yo: bad.append(("pinoffs",j,c.nets[j][1],xo,c.nets[j][2],yo))
nr=int(t[k]); k+=1
for j in range(nr):
    a,b,cc,d,o=t[k].split(); k+=1
    r=c.rows[j]
    if (r.min_x,r.max_x,r.min_y,r.max_y)!=(int(a),int(b),int(cc),int(d)): bad.append(("rowgeom",j))
    if r.orientation.name!=o: bad.append(("roworient",j,r.orientation.name,o))
print(set(b[0] for b in bad), bad[:2])
