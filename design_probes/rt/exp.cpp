#include "gen.hpp"
#include <cstdlib>
#include <fstream>
int main(int argc,char**argv){ uint64_t seed=atoll(argv[1]); Rng rng(seed); GenOpts o; Circuit c=genCircuit(rng,o);
  std::string base=argv[2]; c.exportIspd(base);
  std::ofstream f(base+".truth");
  f<<c.nbCells()<<"\n"; for(int i=0;i<c.nbCells();++i) f<<c.cellWidth_[i]<<" "<<c.cellHeight_[i]<<" "<<c.cellIsFixed_[i]<<" "<<c.cellX_[i]<<" "<<c.cellY_[i]<<" "<<toString(c.cellOrientation_[i])<<"\n";
  f<<c.nbNets()<<"\n"; for(int n=0;n<c.nbNets();++n){ f<<c.nbPinsNet(n); for(int p=c.netLimits_[n];p<c.netLimits_[n+1];++p) f<<" "<<c.pinCells_[p]<<" "<<c.pinXOffsets_[p]<<" "<<c.pinYOffsets_[p]; f<<"\n"; }
  f<<c.nbRows()<<"\n"; for(auto&r:c.rows_) f<<r.minX<<" "<<r.maxX<<" "<<r.minY<<" "<<r.maxY<<" "<<toString(r.orientation)<<"\n";
  f<<c.hpwl()<<"\n";
}
