#include "place_detailed/row_legalizer.hpp"
#include <cstdio>
#include <cstdlib>
#include <vector>
#include <map>
#include <string>
#include <algorithm>
#include <climits>
#include <functional>
using namespace coloquinte;
// brute-force optimum of ordered single-row problem by DP over positions
static long long brute(int b, int e, const std::vector<int>&w, const std::vector<int>&t, std::vector<int>* pos=nullptr){
  int n=w.size();
  // dp[i][x] = min cost placing cells i.. with cell i at >= x
  const long long INF=LLONG_MAX/4;
  int L=e-b;
  std::vector<std::vector<long long>> dp(n+1, std::vector<long long>(L+2, INF));
  for(int x=0;x<=L;++x) dp[n][x]=0;
  for(int i=n-1;i>=0;--i){
    for(int x=L;x>=0;--x){
      long long best = (x+1<=L)? dp[i][x+1]: INF;
      if(x+w[i]<=L && dp[i+1][x+w[i]]<INF){
        long long c=(long long)w[i]*std::llabs((long long)(b+x)-t[i])+dp[i+1][x+w[i]];
        best=std::min(best,c);
      }
      dp[i][x]=best;
    }
  }
  return dp[0][0];
}
int main(){
  long long cases=0, bad_pred=0, bad_sum=0, bad_place=0, bad_opt=0, bad_state=0;
  std::string w1,w2,w3,w4;
  for(int b=-1;b<=1;b+=2) for(int L=1;L<=7;++L){
    int e=b+L;
    // enumerate sequences up to 4 cells
    std::vector<int> w,t;
    std::function<void(int)> rec=[&](int depth){
      if(depth>0){
        // run
        ++cases;
        RowLegalizer leg(b,e);
        long long sum=0; bool ok=true;
        for(int i=0;i<(int)w.size();++i){
          long long c1=leg.getCost(w[i],t[i]);
          long long c1b=leg.getCost(w[i],t[i]);
          long long c2=leg.push(w[i],t[i]);
          if(c1!=c2||c1b!=c1){ if(!bad_pred++){ char buf[400]; int k=snprintf(buf,400,"b=%d e=%d i=%d pred=%lld pred2=%lld push=%lld seq:",b,e,i,c1,c1b,c2); for(size_t j=0;j<w.size();++j)k+=snprintf(buf+k,400-k," (%d,%d)",w[j],t[j]); w1=buf;} ok=false; }
          sum+=c2;
          std::vector<int> ww(w.begin(),w.begin()+i+1), tt(t.begin(),t.begin()+i+1);
          long long opt=brute(b,e,ww,tt);
          std::vector<int> pl=leg.getPlacement();
          long long real=0; bool legal=pl.size()==ww.size();
          for(size_t j=0;j<pl.size()&&legal;++j){ if(pl[j]<b||pl[j]+ww[j]>e) legal=false; if(j+1<pl.size()&&pl[j]+ww[j]>pl[j+1]) legal=false; real+=(long long)ww[j]*std::llabs((long long)pl[j]-tt[j]); }
          if(!legal){ if(!bad_place++){char buf[400]; int k=snprintf(buf,400,"b=%d e=%d i=%d seq:",b,e,i); for(size_t j=0;j<w.size();++j)k+=snprintf(buf+k,400-k," (%d,%d)",w[j],t[j]); w2=buf;} }
          else if(real!=opt){ if(!bad_opt++){char buf[400]; int k=snprintf(buf,400,"b=%d e=%d i=%d real=%lld opt=%lld seq:",b,e,i,real,opt); for(size_t j=0;j<w.size();++j)k+=snprintf(buf+k,400-k," (%d,%d)",w[j],t[j]); w3=buf;} }
          if(sum!=opt){ if(!bad_sum++){char buf[400]; int k=snprintf(buf,400,"b=%d e=%d i=%d sum=%lld opt=%lld seq:",b,e,i,sum,opt); for(size_t j=0;j<w.size();++j)k+=snprintf(buf+k,400-k," (%d,%d)",w[j],t[j]); w4=buf;} break; }
        }
      }
      if(depth==4) return;
      int used=0; for(int x:w) used+=x;
      for(int ww=1;ww<=3;++ww){ if(used+ww>L) break;
        for(int tt=b-3;tt<=e+3;++tt){ w.push_back(ww); t.push_back(tt); rec(depth+1); w.pop_back(); t.pop_back(); } }
    };
    rec(0);
  }
  printf("cases=%lld bad_pred=%lld bad_sum=%lld bad_place=%lld bad_opt=%lld\n",cases,bad_pred,bad_sum,bad_place,bad_opt);
  printf("pred: %s\nplace: %s\nopt: %s\nsum: %s\n",w1.c_str(),w2.c_str(),w3.c_str(),w4.c_str());
}
