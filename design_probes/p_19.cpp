#include "gen.hpp"
#include <cstdlib>
#include <sys/wait.h>
#include <unistd.h>
int main(int argc,char**argv){
  // efforts
  for(int e=-16;e<=32;++e){ pid_t p=fork(); if(p==0){ int rc=0; try{ ColoquinteParameters pp(e); rc= (e>=1&&e<=9)?0:5; try{pp.check();}catch(...){rc=6;} }catch(const std::runtime_error&ex){ rc=(e>=1&&e<=9)?7:0; } _exit(rc);} int st; waitpid(p,&st,0); printf("effort %d: %s %d\n",e,WIFSIGNALED(st)?"SIGNAL":"exit",WIFSIGNALED(st)?WTERMSIG(st):WEXITSTATUS(st)); }
  // C10
  Rng rng(5); GenOpts o; o.polarity=false;o.turned=false; Circuit c=genCircuit(rng,o);
  int k=0; PlacementCallback cb=[&](PlacementStep){ if(++k==2) throw std::logic_error("boom"); try{ c.setRows(c.rows_); printf("setRows accepted during placement!\n"); }catch(const std::runtime_error&){ } };
  { Quiet q; try{ c.placeGlobal(ColoquinteParameters(1),cb);}catch(const std::logic_error&){} }
  try{ c.setRows(c.rows_); printf("after throw: setRows ok\n"); }catch(const std::exception&e){ printf("after throw: setRows refused: %s\n",e.what()); }
  // addNet bad index
  pid_t p=fork(); if(p==0){ Circuit d(2); try{ d.addNet({0,5},{0,0},{0,0}); long long h=d.hpwl(); printf("addNet bad idx accepted hpwl=%lld\n",h);}catch(const std::exception&e){printf("addNet refused\n");} _exit(0);} int st; waitpid(p,&st,0); printf("addNet child: %s %d\n",WIFSIGNALED(st)?"SIGNAL":"exit",WIFSIGNALED(st)?WTERMSIG(st):WEXITSTATUS(st));
}
