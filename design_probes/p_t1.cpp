#include "place_global/transportation_1d.hpp"
#include "gen.hpp"
#include <lemon/network_simplex.h>
#include <lemon/smart_graph.h>
#include <cstdlib>
using namespace lemon;
typedef long long ll;
static ll oracle(const std::vector<ll>&u,const std::vector<ll>&v,const std::vector<ll>&s,const std::vector<ll>&d){
  SmartDigraph g; int S=u.size(), K=v.size();
  std::vector<SmartDigraph::Node> src(S), snk(K);
  for(auto&n:src)n=g.addNode(); for(auto&n:snk)n=g.addNode();
  SmartDigraph::Node T=g.addNode();
  SmartDigraph::ArcMap<ll> c(g,0), up(g,0); SmartDigraph::NodeMap<ll> sup(g,0);
  ll tot=0;
  for(int i=0;i<S;++i){ sup[src[i]]=s[i]; tot+=s[i]; for(int k=0;k<K;++k){ auto a=g.addArc(src[i],snk[k]); c[a]=std::llabs(u[i]-v[k]); up[a]=s[i]; } }
  for(int k=0;k<K;++k){ auto a=g.addArc(snk[k],T); c[a]=0; up[a]=d[k]; }
  sup[T]=-tot;
  NetworkSimplex<SmartDigraph,ll,ll> ns(g); ns.costMap(c).upperMap(up).supplyMap(sup);
  auto r=ns.run(); if(r!=ns.OPTIMAL) return -1; return ns.totalCost<ll>();
}
int main(int argc,char**argv){
  uint64_t seed0=atoll(argv[1]); int n=atoi(argv[2]); int zeros=atoi(argv[3]);
  int ok=0,thr=0,bad_valid=0,bad_opt=0,bad_asz=0,bad_asink=0,bad_unsplit=0; std::string wit, thrmsg;
  for(int it=0;it<n;++it){
    Rng rng(seed0*104729+it);
    int S=rng.range(1,rng.chance(0.2)?30:6), K=rng.range(1,rng.chance(0.2)?12:5);
    ll pmax= rng.chance(0.3)?5:(rng.chance(0.5)?100:100000000);
    ll qmax= rng.chance(0.4)?3:(rng.chance(0.5)?30:1000000);
    std::vector<ll> u(S),v(K),s(S),d(K);
    for(auto&x:u)x=rng.range(0,(int)pmax); for(auto&x:v)x=rng.range(0,(int)pmax);
    for(auto&x:s)x=(zeros&&rng.chance(0.2))?0:rng.range(1,(int)qmax);
    for(auto&x:d)x=(zeros&&rng.chance(0.2))?0:rng.range(1,(int)qmax);
    ll ts=0,td=0; for(auto x:s)ts+=x; for(auto x:d)td+=x;
    try{
      Transportation1d pb(u,v,s,d);
      if(ts>td){ pb.balanceDemand(); }
      std::vector<ll> d2=pb.sinkDemand();
      ll td2=0; for(auto x:d2)td2+=x; 
      auto sol=pb.solve();
      // validity
      std::vector<ll> us(S,0),ud(K,0); bool valid=true; ll cst=0;
      for(auto [i,j,a]:sol){ if(i<0||i>=S||j<0||j>=K||a<=0){valid=false;break;} us[i]+=a; ud[j]+=a; cst+=a*std::llabs(u[i]-v[j]); }
      for(int i=0;i<S&&valid;++i) if(us[i]!=s[i]) valid=false;
      for(int j=0;j<K&&valid;++j) if(ud[j]>d2[j]) valid=false;
      if(!valid){ if(!bad_valid++) wit="valid seed "+std::to_string(seed0*104729+it); continue; }
      ll opt=oracle(u,v,s,d2);
      if(opt!=cst){ if(!bad_opt++) wit="opt seed "+std::to_string(seed0*104729+it)+" "+std::to_string(cst)+" vs "+std::to_string(opt); }
      auto as=pb.assign();
      if((int)as.size()!=S){ bad_asz++; if(wit.empty()) wit="asz seed "+std::to_string(seed0*104729+it)+" size "+std::to_string(as.size())+" S="+std::to_string(S); }
      else {
        for(int i=0;i<S;++i){ if(as[i]<0||as[i]>=K||d2[as[i]]<=0){ bad_asink++; break; } }
        // unsplit sources
        std::vector<int> cnt(S,0), snkOf(S,-1); for(auto [i,j,a]:sol){cnt[i]++; snkOf[i]=j;}
        for(int i=0;i<S;++i) if(cnt[i]==1 && as[i]>=0 && as[i]<K && v[as[i]]!=v[snkOf[i]]) { if(!bad_unsplit++) wit+=" unsplit seed "+std::to_string(seed0*104729+it); }
      }
      ++ok;
    }catch(const std::exception&e){ if(!thr++) thrmsg=std::string(e.what())+" seed "+std::to_string(seed0*104729+it)+" ts="+std::to_string(ts)+" td="+std::to_string(td); }
  }
  printf("ok=%d thr=%d bad_valid=%d bad_opt=%d bad_asz=%d bad_asink=%d bad_unsplit=%d\n%s\n%s\n",ok,thr,bad_valid,bad_opt,bad_asz,bad_asink,bad_unsplit,wit.c_str(),thrmsg.c_str());
}
