#include "gen.hpp"
#include <cstdlib>
#include <cmath>
#include <sys/wait.h>
#include <unistd.h>
static Circuit genBig(Rng&rng){
  const int M=1<<22;
  int H=rng.range(500,3000); int nR=rng.range(1,30);
  int W=rng.chance(0.5)? rng.range(4*H, 200000): rng.range(4*H, 2*M-10);
  int x0=rng.range(-M, M-W); int y0=rng.range(-M, M-nR*H-1);
  std::vector<Row> rows; for(int r=0;r<nR;++r) rows.emplace_back(x0,x0+W,y0+r*H,y0+(r+1)*H, r%2?CellOrientation::FS:CellOrientation::N);
  int n=rng.range(2,60); int nf=rng.range(0,4);
  Circuit c(n+nf); std::vector<int> w,h,x,y; std::vector<bool> f,o;
  long long rowArea=(long long)W*H*nR; long long used=0;
  for(int i=0;i<n+nf;++i){ bool fx=i>=n; int cw=rng.range(100,rng.chance(0.2)?20000:3000); int ch=H*(fx?rng.range(0,3):(rng.chance(0.1)?rng.range(2,3):1));
    if(!fx){ if(used+(long long)cw*ch>0.7*rowArea){cw=100;ch=H;} used+=(long long)cw*ch; }
    if(fx&&rng.chance(0.3)){cw=0;}
    w.push_back(cw);h.push_back(ch);f.push_back(fx);o.push_back(rng.chance(0.7));
    if(rng.chance(0.5)){ x.push_back(rng.range(-M,M-cw-1)); y.push_back(rng.range(-M,M-3*H-1)); } else { x.push_back(x0+rng.range(0,std::max(0,W-cw))); y.push_back(y0+rng.range(0,nR*H)); }
  }
  c.setCellWidth(w);c.setCellHeight(h);c.setCellIsFixed(f);c.setCellIsObstruction(o);c.setCellX(x);c.setCellY(y);c.setRows(rows);
  int nn=rng.range(0,40); for(int k=0;k<nn;++k){ int d=rng.range(1,6); std::vector<int> cs,xo,yo; for(int j=0;j<d;++j){int cc=rng.range(0,n+nf-1); cs.push_back(cc); xo.push_back(rng.range(0,std::max(0,w[cc]))); yo.push_back(rng.range(0,std::max(0,h[cc])));} c.addNet(cs,xo,yo); }
  return c;
}
int main(int argc,char**argv){
  uint64_t seed0=atoll(argv[1]); int n=atoi(argv[2]); int what=atoi(argv[3]);
  std::map<std::string,int> stats; std::string firstCrash;
  for(int it=0;it<n;++it){
    uint64_t seed=seed0*1000003ull+it;
    pid_t p=fork();
    if(p>0){ int st; waitpid(p,&st,0); if(WIFSIGNALED(st)){ stats["signal"+std::to_string(WTERMSIG(st))]++; if(firstCrash.empty())firstCrash=std::to_string(seed);} else stats["exit"+std::to_string(WEXITSTATUS(st))]++; continue; }
    Rng rng(seed); Circuit c=genBig(rng);
    ColoquinteParameters params(rng.range(1,9),1); params.global.maxNbSteps=rng.range(1,6);
    params.detailed.nbPasses=1;
    int rc=0;
    { Quiet q; try{ if(what==0) c.placeGlobal(params); else if(what==1) c.legalize(params); else c.placeDetailed(params); if(what>=1){ auto e=checkLegal(c); if(!e.empty()) rc=3; } } catch(const std::exception&e){ rc=2; } }
    _exit(rc);
  }
  for(auto&p:stats) printf("%-20s %d\n",p.first.c_str(),p.second); printf("first crash seed %s\n",firstCrash.c_str());
}
